#!/usr/bin/env python3
"""tools/reach_gaps.py [tier]  — union of the reach tables of all checks (.work/reach/<id>.<tier>.json, written by
every run): per repository source file the functions no check entered and the lines no check executed.
A work-list for widening workloads; not evidence."""
import glob, json, os, sys
sys.path.insert(0, os.path.dirname(os.path.dirname(os.path.abspath(__file__))))
from nssmon import reach
tier = sys.argv[1] if len(sys.argv) > 1 else "*"
ROOT = os.path.dirname(os.path.dirname(os.path.abspath(__file__)))
for f in glob.glob(os.path.join(ROOT, ".work", "reach", f"C*.{tier}.json")):
    reach.merge(json.load(open(f)))
files = set()
for l in open(os.path.join(ROOT, "properties.jsonl")):
    files.update(x for x in json.loads(l)["anchors"]["files"] if x.endswith(".py"))
reach._started = True
rep = reach.report(sorted(files), max_missed=10**6)
for rel, r in rep["anchored"].items():
    if "note" in r:
        print(rel, r["note"]); continue
    print(f"== {rel}: {r['executed']}/{r['function_body_lines']} lines, {r['functions_entered']}/{r['functions']} functions")
    if r["never_entered"]:
        print("   never entered:", ", ".join(r["never_entered"]))
    for m in r["lines_never_executed_in_entered_functions"]:
        print("   -", m)
