#!/usr/bin/env python3
"""Sensitivity runs: apply each deliberate breaking change from selftest/mutants.json
(string replacement in one file) or seeded/<name>/patch.diff to a throw-away worktree of
/repo HEAD, confirm the repository tests still pass there, run the property's check against it
(NSS_REPO), and record whether it fired. Never touches /repo's working tree.

usage: tools/run_mutants.py [--only substr] [--tier quick] [--no-tests] [--jobs 4] [--seeded]
"""
import argparse
import concurrent.futures as cf
import json
import os
import shutil
import subprocess
import sys
import tempfile
import time

ROOT = os.path.dirname(os.path.dirname(os.path.abspath(__file__)))
SO = "src/nuspacesim/simulation/eas_optical/zsteps.cpython-312-x86_64-linux-gnu.so"


def sh(cmd, **kw):
    return subprocess.run(cmd, shell=True, capture_output=True, text=True, **kw)


import threading

_WT_LOCK = threading.Lock()  # concurrent `git worktree add/remove/prune` race on .git/worktrees


def make_wt(base="HEAD"):
    wt = tempfile.mkdtemp(prefix="nssmon_wt.", dir="/tmp")
    os.rmdir(wt)
    with _WT_LOCK:
        r = sh(f"git -C /repo worktree add --detach {wt} {base}")
    if r.returncode:
        raise RuntimeError(r.stderr)
    shutil.copy("/repo/src/nuspacesim/_version.py", f"{wt}/src/nuspacesim/_version.py")
    shutil.copy(f"/repo/{SO}", f"{wt}/{SO}")
    return wt


def drop_wt(wt):
    with _WT_LOCK:
        sh(f"git -C /repo worktree remove --force {wt}")
        shutil.rmtree(wt, ignore_errors=True)
        sh("git -C /repo worktree prune")
    shutil.rmtree(os.path.join(ROOT, ".build", wt.replace("/", "_")), ignore_errors=True)


def run_one(m, tier, tests):
    t0 = time.time()
    # a seeded change whose mechanism was later repaired in /repo ("fix:" commit) is replayed
    # against the commit it was written for (meta.json: base_commit)
    wt = make_wt(m.get("base") or "HEAD")
    out = {"id": m["id"], "property": m["property"]}
    if m.get("base"):
        out["base_commit"] = m["base"]
    try:
        if "patch" in m:
            r = sh(f"git -C {wt} apply {m['patch']}")
            if r.returncode:
                out["status"] = "patch-does-not-apply"
                out["detail"] = r.stderr[-300:]
                return out
        else:
            p = os.path.join(wt, m["file"])
            s = open(p).read()
            if s.count(m["old"]) < 1:
                out["status"] = "old-text-not-found"
                return out
            open(p, "w").write(s.replace(m["old"], m["new"], 1))
        if tests:
            r = sh(f"cd {wt} && PYTHONPATH={wt}/src /venv/bin/python -m pytest -q -x -p no:cacheprovider --timeout=900 2>&1 | tail -1")
            out["tests"] = r.stdout.strip()
            out["tests_pass"] = " passed" in r.stdout and "failed" not in r.stdout
        if m.get("demo"):
            r = sh(f"cd {wt} && PYTHONPATH={wt}/src timeout 900 /venv/bin/python {m['demo']} >/dev/null 2>&1; echo $?")
            out["demo_exit_with_change"] = int(r.stdout.strip() or -1)
            if m.get("base"):
                sh(f"git -C {wt} apply -R {m['patch']}")
                r = sh(f"cd {wt} && PYTHONPATH={wt}/src timeout 900 /venv/bin/python {m['demo']} >/dev/null 2>&1; echo $?")
                sh(f"git -C {wt} apply {m['patch']}")
            else:
                r = sh(f"cd /repo && PYTHONPATH=/repo/src timeout 900 /venv/bin/python {m['demo']} >/dev/null 2>&1; echo $?")
            out["demo_exit_clean"] = int(r.stdout.strip() or -1)
        checks = m.get("checks") or [m["property"]]
        out["results"] = {}
        for cid in checks:
            env = dict(os.environ, NSS_REPO=wt, NSSMON_NOEVIDENCE="1")
            r = subprocess.run(["./check", cid, m.get("tier", tier)], cwd=ROOT, capture_output=True, text=True, env=env, timeout=7200)
            lines = [l for l in r.stdout.splitlines() if l.startswith(("VIOLATION", "  ", "INCONCLUSIVE", "KNOWN"))]
            out["results"][cid] = {"exit": r.returncode, "lines": lines[:6]}
        out["caught"] = any(v["exit"] == 1 for v in out["results"].values())
        out["status"] = "caught" if out["caught"] else "MISSED"
        if m.get("neutralised_by") and not out["caught"]:
            # a later "fix:" commit in /repo made this change harmless: it must then really be harmless
            # (its own demonstration passes) and the check must stay silent on it
            ok = out.get("demo_exit_with_change") in (0, None) and all(v["exit"] == 0 for v in out["results"].values())
            out["status"] = "neutralised" if ok else "MISSED"
            out["neutralised_by"] = m["neutralised_by"]
    except Exception as e:
        out["status"] = f"error {type(e).__name__}: {e}"
    finally:
        drop_wt(wt)
        out["wall_s"] = round(time.time() - t0, 1)
    return out


def main():
    ap = argparse.ArgumentParser()
    ap.add_argument("--only", default=None)
    ap.add_argument("--tier", default="quick")
    ap.add_argument("--no-tests", action="store_true")
    ap.add_argument("--jobs", type=int, default=4)
    ap.add_argument("--seeded", action="store_true", help="run seeded/<name>/patch.diff instead of selftest/mutants.json")
    ap.add_argument("--out", default=None)
    ap.add_argument("--ids", default=None, help="comma-separated exact ids")
    ap.add_argument("--wave", type=int, default=None, help="with --seeded: only changes whose meta.json has this wave number")
    a = ap.parse_args()
    if a.seeded:
        muts = []
        sd = os.path.join(ROOT, "seeded")
        for name in sorted(os.listdir(sd)):
            mp = os.path.join(sd, name, "meta.json")
            if not os.path.exists(mp):
                continue
            meta = json.load(open(mp))
            if a.wave is not None and meta.get("wave") != a.wave:
                continue
            demo = os.path.join(sd, name, "demo.py")
            muts.append({"id": name, "property": meta["property"], "patch": os.path.join(sd, name, "patch.diff"), "checks": meta.get("checks"), "tier": meta.get("tier_needed", a.tier), "demo": demo if os.path.exists(demo) else None, "base": meta.get("base_commit"), "neutralised_by": meta.get("neutralised_by")})
    else:
        muts = json.load(open(os.path.join(ROOT, "selftest", "mutants.json")))
    if a.only:
        muts = [m for m in muts if a.only in m["id"] or a.only == m["property"]]
    if a.ids:
        want = set(a.ids.split(","))
        muts = [m for m in muts if m["id"] in want]
    res = []
    with cf.ThreadPoolExecutor(max_workers=a.jobs) as ex:
        for r in ex.map(lambda m: run_one(m, a.tier, not a.no_tests), muts):
            res.append(r)
            first = ""
            for v in r.get("results", {}).values():
                for l in v["lines"]:
                    if l.startswith("  "):
                        first = l.strip()[:150]
                        break
                if first:
                    break
            print(f"{r['status']:8s} {r['id']:40s} tests={r.get('tests_pass')} demo={r.get('demo_exit_with_change')}/{r.get('demo_exit_clean')} {r.get('wall_s')}s  {first}")
            sys.stdout.flush()
    if a.out:
        json.dump(res, open(a.out, "w"), indent=1)
    missed = [r["id"] for r in res if r["status"] not in ("caught", "neutralised")]
    neut = [r["id"] for r in res if r["status"] == "neutralised"]
    print(f"{len(res) - len(missed) - len(neut)}/{len(res) - len(neut)} caught; not caught: {missed}; neutralised by a later fix (harmless now, check silent): {neut}")


if __name__ == "__main__":
    main()
