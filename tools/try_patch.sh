#!/bin/bash
# usage: tools/try_patch.sh [-R] <patch.diff> <check-id> [tier] [-- extra cmd]
# Applies a patch to a throw-away worktree of /repo HEAD (never to /repo itself), optionally
# runs the repository test-suite there (TESTS=1), runs ./check <id> against it via NSS_REPO,
# and removes the worktree. Exit code = exit code of the check.
REV=""
if [ "$1" = "-R" ]; then REV="-R"; shift; fi
PATCH="$(readlink -f "$1")"; ID="$2"; TIER="${3:-quick}"
V="$(cd "$(dirname "$(readlink -f "$0")")/.." && pwd)"
WT="$(mktemp -d /tmp/nssmon_wt.XXXXXX)"; rmdir "$WT"
git -C /repo worktree add --detach "$WT" HEAD >/dev/null 2>&1 || { echo "worktree failed"; exit 9; }
cp /repo/src/nuspacesim/_version.py "$WT/src/nuspacesim/_version.py"
cp /repo/src/nuspacesim/simulation/eas_optical/zsteps.cpython-312-x86_64-linux-gnu.so "$WT/src/nuspacesim/simulation/eas_optical/"
cleanup() { git -C /repo worktree remove --force "$WT" >/dev/null 2>&1; rm -rf "$WT" "$V/.build/$(echo "$WT" | tr '/' '_')"; git -C /repo worktree prune; }
trap cleanup EXIT
if ! git -C "$WT" apply $REV "$PATCH"; then echo "PATCH-DOES-NOT-APPLY"; exit 8; fi
if [ "${TESTS:-0}" = "1" ]; then
  ( cd "$WT" && PYTHONPATH="$WT/src" /venv/bin/python -m pytest -q -p no:cacheprovider --timeout=900 2>&1 | tail -2 )
fi
if [ -n "${DEMO:-}" ]; then
  ( cd "$WT" && PYTHONPATH="$WT/src" timeout 600 /venv/bin/python "$DEMO" >/dev/null 2>&1; echo "demo exit with patch: $?" )
fi
cd "$V" && NSS_REPO="$WT" NSSMON_NOEVIDENCE=1 ./check "$ID" "$TIER" 2>&1 | grep -v "^  warn" | tail -${LINES_OUT:-8}
rc=${PIPESTATUS[0]}
echo "check exit: $rc"
exit $rc
