#!/bin/bash
# tools/sweep.sh <tier> <seeds...>  — run every check for each seed from fresh processes; print verdict lines
V="$(cd "$(dirname "$(readlink -f "$0")")/.." && pwd)"; cd "$V"
TIER="$1"; shift
for s in "$@"; do
  for i in $(seq -w 1 20); do
    out=$(VERIF_SEED=$s NSSMON_NOEVIDENCE=${NOEV:-1} timeout 7200 ./check C$i $TIER 2>&1); rc=$?
    echo "seed=$s C$i rc=$rc $(echo "$out" | grep -E "^\[C" | tail -1)"
    if [ $rc -ne 0 ]; then echo "$out" | grep -E "VIOLATION|INCONCLUSIVE|^  " | head -6; fi
  done
done
