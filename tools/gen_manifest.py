#!/usr/bin/env python3
"""Regenerates /verif/MANIFEST.json from the table below (run after adding a check)."""
import json
import os

ROOT = os.path.dirname(os.path.dirname(os.path.abspath(__file__)))

ALL = [f"C{i:02d}" for i in range(1, 21)]

# id -> (level category, technique, level text, level note, design section)
CHECKS = {
    "C19": (
        "exploration",
        "runtime monitors on the real functions: round-trip / monotonicity / endpoint oracles, icontract post-conditions, independent per-layer reference, bit comparison of the two copies",
        "Observed executions of both shipped copies on 10^5..10^6 altitudes and pressures, including every double within 64 ulps of each of the seven layer boundaries (enumerated), scalar/0-d/2-d call forms and the endpoints; every stated bound (1e-6 km, 1e-6 relative, 3e-7 steps) is asserted on each value. Held-on-observed, not a proof: the input space is all doubles in a range.",
        "Trusted: numpy/libm elementary functions; the independent reference uses the published 1976 layer constants. Integer-typed inputs are observed but not judged.",
        "5 (C19)",
    ),
}

NOT_YET = "check not built yet in this session (see DESIGN.md section 5 for the planned monitor)"


def main():
    props = {}
    with open(os.path.join(ROOT, "properties.jsonl")) as f:
        for line in f:
            p = json.loads(line)
            props[p["id"]] = p
    checks = []
    for pid in ALL:
        if pid not in CHECKS:
            continue
        cat, tech, text, note, ref = CHECKS[pid]
        checks.append(
            {
                "property_id": pid,
                "quick_cmd": f"./check {pid} quick",
                "thorough_cmd": f"./check {pid} thorough",
                "evidence_file": f"evidence/{pid}.json",
                "replay_cmd_template": f"./check {pid} --replay {{path}}",
                "engine": "nssmon",
                "level_claimed": {"category": cat, "text": text, "design_ref": f"DESIGN.md section {ref}"},
                "level_note": note,
                "technique": tech,
            }
        )
    man = {
        "version": 1,
        "setup_cmd": "./check --setup",
        "hooks": {
            "guard": "NUSPACESIM_VERIF",
            "enable": "export NUSPACESIM_VERIF=1 (./check does); with NUSPACESIM_VERIF_DTYPE=float64 the Cherenkov kernel (CphotAng) runs in double precision. Python sources need no build; zsteps.cpp is recompiled from the working tree by ./check through a pybind11 shim.",
            "baseline_off_cmd": "cd /repo && env -u NUSPACESIM_VERIF -u NUSPACESIM_VERIF_DTYPE /venv/bin/python -m pytest -ra -q -p no:cacheprovider --timeout=900 --continue-on-collection-errors",
            "source_commits": ["4d6caab"],
            "add_only": True,
        },
        "engines": [
            {
                "name": "nssmon",
                "path": "nssmon/",
                "serves_properties": [c["property_id"] for c in checks],
                "kind_free_text": "runtime monitoring: probes/contracts on the real code, reference-model and metamorphic oracles over hostile generated workloads, schedule/fault/crash injection, ASan+UBSan on zsteps.cpp; three-valued verdicts",
            }
        ],
        "checks": checks,
        "not_applicable": [{"property_id": pid, "reason": NOT_YET} for pid in ALL if pid not in CHECKS],
        "notes": "Every check is ./check <id> quick|thorough (VERIF_SEED honoured). Known findings: known_findings.json. Seeded breaking changes and which check catches them: seeded/ and DESIGN.md section 8.",
    }
    with open(os.path.join(ROOT, "MANIFEST.json"), "w") as f:
        json.dump(man, f, indent=1)
    print("MANIFEST.json:", len(checks), "checks,", len(man["not_applicable"]), "not yet claimed")


if __name__ == "__main__":
    main()
