#!/usr/bin/env python3
"""Regenerates /verif/MANIFEST.json from the table below (run after adding a check)."""
import json
import os

ROOT = os.path.dirname(os.path.dirname(os.path.abspath(__file__)))

ALL = [f"C{i:02d}" for i in range(1, 21)]

# monitors added in the wave-17 session (appended to the technique text)
WAVE17 = {
    "C01": "; block-seam monitor (kept count steered onto multiples of 8192: additivity of the sums over a split); every object of a scan integrated again after all were used",
    "C03": "; the same events re-thrown in another order on the used object; two geometry objects thrown first and integrated afterwards against objects used on their own",
    "C04": "; memory-layout monitor (C / Fortran / transposed / strided / read-only 2-d batches against the flat batch)",
    "C05": "; every returned array is held until after the next call on the object and compared byte for byte",
    "C07": "; dtype monitor casts the kinematic arrays, the random numbers, and both",
    "C08": "; the same argument arrays edited in place between consecutive calls on one object",
    "C12": "; indices within 1e-12..1e-6 of 1 on both sides judged at a flat 1e-9 decades against the 60-digit image",
    "C13": "; integrals as observers of the thrown geometry (arrays and instants unchanged after optical / radio integrals with real decay lengths); observation windows containing a UTC leap second; positions for narrow-dtype distance arrays",
    "C14": "; every empty-run case with and without progress messages; narrow-cone configurations and target-mode runs with the radio trigger switched off in the channel-isolation runs",
    "C15": "; every unit field offered texts that a field of another dimension has just accepted (rejection must not depend on parse history)",
    "C17": "; with writing disabled, failures injected at the entry of and inside stages must leave nothing on disk; staged runs named by a relative path from three working directories in one process",
    "C18": "; integer axes over the whole range of their dtype, half-precision-axis variants, nodes given as numpy scalars and as Python numbers; slice / edit in place / slice history; float16 fixed witnesses",
    "C20": "; decays within 1e-10 km below the ground among the out-of-range events",
    "C19": "; memory-layout monitor (10 layouts, both directions) and re-used-buffer history (same array object refilled in place between consecutive calls)",
}

# id -> (level category, technique, level text, level note, design section)
CHECKS = {
    "C10": (
        "exploration",
        "history + executable sequential model: every batch result compared bit for bit with one-at-a-time evaluation under real dask schedulers, an adversarial executor (seeded and enumerated start/release orders), forced partition sizes, sys.monitoring yield injection with the shared kernel object frozen, per-position failpoints cycling through 16 exception types (StopIteration at every position), a kernel object reconfigured after construction, and the shipped pressure-map cloud model as the cloud function with the one-at-a-time model evaluated in reverse order",
        "Observed schedules: synchronous, threads 1/2/8/16, processes 2[/4]; partition sizes {1,2,3,7,100,n,n+1}; 60..300 adversarial schedules incl. all P! start orders for P=4[,5]; 12..240 yield-injected 4-thread runs (tens of thousands of forced thread switches at hundreds of source lines); a failing event at every position of 25 and at 5 positions of 250 under each scheduler; every batch uses a cloud function whose top depends on the event (incl. NaN tops); an event that raises when evaluated alone must make the batch raise. The quantifier is over all schedules: a finite set is explored.",
        "Trusted: dask's scheduler hooks (pool=, num_workers), CPython's sys.monitoring. TSan/helgrind are noise on CPython and are not used; Python-level races are attacked by forced GIL hand-offs and a frozen shared object, the empty batch.",
        "5 (C10)",
    ),
    "C11": (
        "exploration",
        "metamorphic monitors (permutation, split, repeat incl. reused buffer objects, single-event rows) and input-digest monitors on 19 real stage entry points (incl. an energy scan in 8192-aligned blocks and an all-in-window optical batch with 0..2pi longitudes), plus every plot-taking stage with and without its diagnostic plots, bit for bit, with explicit random numbers or a constant RNG stub",
        "Observed executions over batch sizes {1,2,17,8191,8192,8193,20000} (kernel stages {1,2,17,101[,250]}), every split point for n<=17, seeded permutations through the same buffer objects refilled in place and through fresh arrays, 2..5 repeats on one object; ~4e6 event evaluations per quick run.",
        "Trusted: numpy's elementwise loops being position-independent on this machine (observed). Empty halves are not demanded. Stages without explicit random numbers are driven with a constant RNG stub (no draw order assumed).",
        "5 (C11)",
    ),
    "C13": (
        "exploration",
        "reference-model monitor with independent astrometry (ICRS/GCRS->ITRS directions dotted with the geodetic normal, topocentric Sun/Moon, phase angle from vectors, coarse GMST formula) and guard bands; explicit ray-sphere triangle; per-instant and monotonicity monitors on the dark-sky cut; channel application through the real mcintegral at trigger thresholds 10, 0 and -1; instant-grid sweep over every N, with Python and numpy integer counts; limit edges (emergence angle within 3 ulps of the horizon for altitudes 1..400 km, limb angles beyond the whole disc, half / single precision time fractions)",
        "Observed executions over 96..480 seeded target configurations (sources on the sphere incl. poles, dates 2020-2026, T 10 s..30 d, N 1..2000 incl. 49 and 103 for the full monitors and every N in 1..1500 (12000 thorough) x 7 durations for the instant grid, detector incl. poles and longitudes in any convention (-2pi..2pi), cut thresholds default / always / never / exactly 0 / random): every instant judged outside the guard bands; numbers judged are in the evidence.",
        "Trusted: astropy's transformations, ephemerides and IERS tables. Guard bands 1e-3 deg (source), 0.01 deg (Sun, Moon), 1e-6 deg (phase): instants inside are not judged.",
        "5 (C13)",
    ),
    "C14": (
        "exploration",
        "monitored full runs of the real compute(): byte comparison of whole tables (frozen simTime) across schedulers and channel switches, structural monitor re-evaluating cross-stage relations on the stored columns, zero-survivor runs, interleaved configurations in one process, and the same run with every registered diagnostic plot requested",
        "12 (quick) / 36 (thorough) configurations of the mode x spectrum x cloud x altitude cross product x 2..3 seeds, each run under synchronous, threads-8 with partition size 10, processes-2 or an adversarial executor, repeated, radio-off and optical-off; plus 4 zero-survivor cases x 3 channel variants.",
        "Trusted: dask, astropy tables. The source-built stepping function is used in every process (spawned workers re-import the harness main module).",
        "5 (C14)",
    ),
    "C15": (
        "exploration",
        "field-by-field round-trip monitor over the pydantic model tree, independent unit route (Quantity(value, unit_object).to(canonical)), validation monitors for bands and months, CLI driven through click's CliRunner",
        "500..12000 seeded configurations (all spectrum/cloud variants, 21 hostile strings, floats over 17 decades incl. -0.0, denormals, max double, +-inf cloud altitude), 15 unit-bearing fields x spellings x values x {string, Quantity}, incompatible units, bare numbers, 14 band specifications x 3 routes, 132 month spellings, 13 CLI invocations.",
        "Trusted: tomllib/tomli_w, astropy.units. Optional sections set to None are generated; create_toml cannot write them (KNOWN-FINDING toml:none-section, accepted only for that TypeError). Angle magnitudes kept where the degree value neither overflows nor is denormal.",
        "5 (C15)",
    ),
    "C16": (
        "exploration",
        "round-trip monitor on real Table.write/read of results tables (synthetic on results_table.init and from real runs), header completeness incl. values, reconstruction compared on the fields config_from_fits is observed to fill; numpy scalars left in the configuration, runs without surviving trajectories, the command-line path incl. -w compared with an in-process compute(); configurations without an ionosphere block; hostile ASCII strings (quote/slash pairs, trailing ampersands, single-card and CONTINUE-card lengths); mechanism-keyed classifiers for the two open header findings (float text, string card grammar); the show-plot command on the files of two-channel, radio-only, optical-only and empty runs",
        "120..2000 synthetic tables (all stored dtypes incl. Time and 2-D fields; one third with 17-digit floats, two thirds with short-text floats that must be exact; reused configuration objects) plus 4..24 tables from real runs; every column, header value, configuration entry and reconstructed field compared.",
        "Trusted: astropy.io.fits. Float header differences are accepted only as KNOWN-FINDING fits-header:float-text-exceeds-card and only when the card-cutting rule predicts the exact read-back value (or a write failure cut inside the exponent). String differences are accepted only as KNOWN-FINDING fits-header:string-card-grammar: the value contains a quote followed by blanks and a slash (single-card values: read-back equals the predicted cut) or needs CONTINUE cards and ends with '&'.",
        "5 (C16)",
    ),
    "C17": (
        "fault_enumeration",
        "offline prefix checker over recorded writes with fault injection in separate processes: every stage boundary x {raise, die-after, die-before}, every stage method raising at entry, audit-hooked write_stages=False runs",
        "For each configuration (2 quick / 7 thorough, several file names incl. extension-less) one reference run snapshots the file at every boundary; then one process per (boundary, kind) is run and the file left on disk is compared, file against file, with the reference snapshot; compute() must raise for injected failures. Every boundary of each configuration is enumerated. Reference-only runs add low-angle geometry, empty runs, every diagnostic plot, exactly one surviving trajectory and a non-finite configuration value (KNOWN-FINDING staged:non-finite-header-skipped: accepted only when every keyword the file lacks is non-finite in the table).",
        "Trusted: astropy FITS I/O, os._exit for process death, sys.addaudithook. Death during a write is outside the property and is not injected.",
        "5 (C17)",
    ),
    "C20": (
        "exploration",
        "two-run relations on the real EASRadio + calculate_snr (identically seeded), finiteness/range monitors on events from the real upstream stages with hostile decay numbers, exhaustive enumeration of all 13 695 aligned bands against an independent evaluation of the parametrisation, SNR re-derived from the formulas; half / single precision and integer event arrays against the same numbers as doubles",
        "5 detector altitudes (ionosphere branch at 90 km) x band/TEC variants x 300..2500 events incl. lenDec in {0, 1e-17, ...}, decays at closest approach, altDec in {0, 10, 10+ulp} and degenerate out-of-range decays (at the detector altitude, +-inf, below ground on a grazing track); energy factors, antenna counts, permutations incl. a 20000..70001-event batch; every band enumerated; detectors inside the decay range (5, 8 km). A decay at exactly the detector's altitude gives inf/NaN (KNOWN-FINDING radio:decay-at-detector-altitude, fixed witness).",
        "Trusted: numpy, the shipped parameter tables (read from the file, not from the object under test). Antenna gain positive.",
        "5 (C20)",
    ),
    "C01": (
        "exploration",
        "runtime oracle on the real throw/mcintegral: finite-difference 4x4 Jacobian of explicit 3-D vectors (importance identity), one-hot observation of the weight mcintegral applies, scrambled-Sobol quadrature (truncated and full) against an independently integrated aperture; one node array shared across a scan of configurations; header RMCINTGO/OMCINTGO of full two-channel runs against the aperture; configurations built through the validating constructor, oracles fed the requested numbers; the u4 faces of the closed cube (horizon: weight positive or +inf, open finding diffuse:horizon-face-weight; nadir end of a whole-disc annulus: weight = normalisation computed from the configuration alone)",
        "Observed executions over 12 (quick) / 64 (thorough) configurations spanning altitude 1..40000 km, limb angle 1e-3..0.999 of the horizon angle, cone 0.1..89 deg, azimuth 1..360 deg: 4096..20000 interior points each judged pointwise (2e-5), weights observed through the real mcintegral, region edges, and quadrature convergence. Unbiasedness is a statement about a whole measure; what is observed is the integrand identity and region at sampled points plus convergence of one quadrature family.",
        "Trusted: numpy, scipy.integrate.quad, scipy.stats.qmc. Earth radius = astropy R_earth. A defect confined to a set the workload never samples is invisible.",
        "5 (C01)",
    ),
    "C02": (
        "exploration",
        "reference-model monitor with explicit 3-D vectors on every thrown event of the closed unit cube; closed-form inverse-CDF residual in 50-digit decimal; position oracle along kept trajectories incl. after a second throw on the same object; history monitor (same-size throw on a used object equals the fresh object's, every array, bit for bit); special points where a sine or cosine of the construction is exactly +-1 (pole, vertical trajectory, nadir) +-3 ulps; annuli reaching the sub-detector point for altitudes 1..200 km; single / half precision random-number arrays against the same numbers as doubles",
        "Observed executions of RegionGeom.throw on a closed-cube boundary catalogue (all face/edge/vertex combinations, denormals, 1-2^-53, u4 ladders) plus 4e4..1.5e5 interior points for 12..160 detector positions incl. poles and the date line; every event judged for range, inverse-CDF image, ground spot, emergence angle and keep mask; positions along trajectories at 5 distances.",
        "Trusted: numpy, python decimal. Inverse-CDF tolerance 1e-10 of the CDF range plus 32 ulps of l (the property gives no figure; the trigonometric solver carries tens of ulps). Altitude along a trajectory is observable only through the ground offset.",
        "5 (C02)",
    ),
    "C03": (
        "exploration",
        "independent re-evaluation of the documented estimator (math.fsum loops, own derivation of the sampling normalisation) from the event columns; metamorphic monitors (permutation, threshold ladder, bound, call history, second throw); both channels evaluated on the same arrays with the oracle reading pristine copies and an inputs-unchanged monitor; single-survivor cases; monitored full compute() runs recomputing header keywords and per-event columns from the final table; the horizon face u4 = 0 (open finding diffuse:horizon-face-weight, fixed witnesses); half / single precision per-event arrays against the same numbers as doubles",
        "Direct: the real mcintegral of both geometry classes on generated arrays incl. trigger == threshold, cosines on the cone edge, decay exactly at / beyond the path length, both methods, dark-sky cut on/off (1e5 events per run). Full runs: 5 (quick) / 13 (thorough) monitored simulations in both modes and channels incl. the 1/E spectrum.",
        "Trusted: numpy; the dark-sky mask itself is taken from the real sun_moon_cut (C13 decides its correctness). Sums compared at 1e-9 relative plus a stated conditioning allowance; counts exactly.",
        "5 (C03)",
    ),
    "C06": (
        "exploration",
        "reference-model monitor (scalar double-precision model, math module only) against the production float32 kernel and the same kernel in double via the guarded hook; stepping probe with invariants; clang ASan+UBSan on the working tree's zsteps.cpp (pre-flight and on every tuple the workload passed); the batch path against run() event by event; input-dtype monitor on the batch path (float16 / float32 / int64 energies and altitudes)",
        "Observed executions on a stratified grid incl. all faces of [0,42 deg]x[0,20 km]x[1e-5,1e4] plus hostile extras and random points (1.1e3 quick / 1.3e4 thorough events, three detector altitudes): float32 within the property's band, median deviation, double-precision agreement at 1e-9 (separates logic from rounding), sub-degree clamp bit-identity, stepping invariants, sanitizer clean with identical output hash.",
        "Trusted: the reference transcription of the model (DESIGN Appendix A), libm, clang sanitizers. The prebuilt extension cannot be rebuilt (no pybind11): every kernel run uses the function compiled from the current zsteps.cpp through a shim. A clean sanitizer run is not memory safety.",
        "5 (C06)",
    ),
    "C08": (
        "exploration",
        "probes on CphotAng.__call__/run recording what EAS.__call__ hands to the kernel and gets back; recomputation of PEs and the effective angle; two-run inverse-square relation with independent straight-line distances (detectors from 5 km to 36000 km, incl. detectors below some of the decays); call history on one EAS object; configuration edited between runs; integer emergence-angle arrays against the same numbers as doubles",
        "Observed executions of the real EAS.__call__ for 3..5 detector altitudes x 3 optical settings with hostile decay altitudes (-inf, -5e-324, 0, 20, 20+ulp, +inf ...), thresholds giving PE/threshold exactly 2 and one ulp either side, and 150..1500 two-detector kernel runs.",
        "Trusted: numpy. Squared-ratio tolerance 1e-4 for every detector and every shower-detector distance, decays 1 m from a detector inside the decay range included (only a decay exactly at the detector, where the ratio itself is infinite, is skipped). Synchronous scheduler (schedules are C10's subject).",
        "5 (C08)",
    ),
    "C09": (
        "exploration",
        "kernel run under harness cloud functions placed relative to the segment altitudes the kernel itself reports (valid_arrays probe): bit-identity / exact zero / reference-with-cloud / piecewise constancy; cloud-model monitors with a neighbour-node oracle over all 12 maps and an independent atmosphere; full runs in both modes observing which sites the cloud model is asked for",
        "Observed executions: 60..480 events x ~27 cloud tops x two precisions; 12 monthly maps x 3400..40000 locations (radians) incl. poles, the +-180 deg seam, locations produced by the real geometry stage and longitudes in the 0..360 deg / below -180 deg conventions (what target mode passes on from the configuration).",
        "Trusted: astropy.io.fits for the maps, atm_ref. A tie (cloud top exactly on a segment altitude) is accepted either way. float32 absolute accuracy for cloud tops above 25 km is observed only.",
        "5 (C09)",
    ),
    "C04": (
        "exploration",
        "reference-model monitor on the real sampler: forward CDF residual and own inversion from an independent explicit-neighbour table model, RNG spy/stub for explicit-vs-internal equivalence, rejection (out-of-table energy at every angle, every batch position, single events, at Taus.tau_energy and at the sampler boundary) and monotonicity monitors; input-dtype monitor (integer / float32 / float16 arrays, lists); the pipeline order (exit probability then energy on the same arrays, Taus.__call__) against the stand-alone call; diagnostic plots as observers",
        "Observed executions of Taus.tau_energy and grid_cdf_sampler on ~1e6 (logE, beta, u) per run over all three shipped table versions: batches of size 1..20000 (around the 8192 iterator buffer) in every mix of in-table / below-min / above-max angles, nodes, cell centres and edges, energies scattered / one tabulated value / blocks of constant values (8192-aligned and not) / sorted, u over the whole of [0, 1-2^-53] incl. 0 and exact node values; every event is judged against F(z)=u (1e-12). Held-on-observed over a continuous input space.",
        "Trusted: h5py's reading of the shipped tables, numpy. At the two ends of a CDF row the inverse is the whole end plateau. 'Negligible' is read as 0 < z <= 1e-5.",
        "5 (C04)",
    ),
    "C05": (
        "exploration",
        "reference-model monitor (own log-bilinear interpolation with explicit neighbours), exhaustive node enumeration, batch-layout monitor (one off-node energy, one tabulated energy, blocks, sorted, single events), call-history monitor comparing a long-lived object with fresh objects and digesting its table after every call; rejection of out-of-table energies at every angle incl. above the tabulated maximum and for single events; input-dtype monitor (integer / float32 arrays)",
        "All 25x51 nodes of all three exit-probability tables are enumerated; 5e4..1e6 random/edge points per table are compared with the independent model (1e-12) and the surrounding-node bounds; clamps, rejection of out-of-table energies, and a scripted history (random batches plus few-key mono-energetic A,B,A,... sequences) on one object versus fresh objects, bit for bit.",
        "Trusted: h5py, numpy log10/pow. The above-maximum value is only required to be one constant within 0.5 % of 1.19e-7 (the property names it to three digits).",
        "5 (C05)",
    ),
    "C07": (
        "exploration",
        "icontract post-conditions on the real Taus.__call__ and EAS.altDec recomputing every output with independent constants and explicit-vector geometry; RNG spy (internal draws) and hostile RNG stub; monotonicity ladders; input-dtype monitor (half / single precision kinematics against the same numbers as doubles)",
        "Observed executions over 3 table versions x 3 etau_frac x hostile/real generators (1e5..2e6 events): every event's Lorentz factor, speed, shower energy, decay length and decay altitude recomputed independently (1e-12; altitude 1e-9), including exactly 42 deg, logE exactly 6, u = 0 (infinite decay length), 5e-324, 1-2^-53 and 1; the real call order on the same arrays with pristine copies for the oracle; and the smallest energies the tables can produce.",
        "Trusted: numpy; constants m_tau=1.77686 GeV, c=299792.458 km/s, tau0=2.903e-13 s; Earth radius astropy R_earth. Speed exactly 1.0 accepted only where 1/gamma^2 < 2^-53.",
        "5 (C07)",
    ),
    "C12": (
        "exploration",
        "icontract post-conditions on the real Spectra.__call__ (bounds, normalisation product) plus an exact inverse-CDF oracle in 50-digit decimal, both ways: F(E) against u and the returned log-energy against the exact image of u itself (60 digits; next to u = 1 a steep spectrum maps one ulp of u onto a tenth of a decade); history monitor on edited / copied spectrum objects; uniform numbers supplied by a hostile RNG stub or observed by an RNG spy",
        "Observed executions over a boundary catalogue of (index, bounds) incl. index exactly 1 and within 1e-12..1e-1 of 1, narrow and full bounds, plus 300..3000 random configurations, each with hostile u (0, denormals, 1-2^-53, 1), grids and real draws; every value is judged against the exact CDF.",
        "Trusted: python decimal. Tolerance: |F-u| <= 1e-9 (or log-energy within 1e-12 + 1e-14/|1-index| of an exact image: representability for narrow bounds) and, always, log-energy within 1e-9 + 1e-14/|1-index| decades of the exact image of u.",
        "5 (C12)",
    ),
    "C18": (
        "exploration",
        "round-trip monitors on the real NssGrid reader/writers (HDF5, FITS) judged by a harness-side comparison, reference blend for slicing, plateau-aware bracket oracle for row interpolation over the closed row range with node steps of every scale (1e-17..1), overwrite / multi-path sequences on one file, exhaustive scan of every shipped table against raw h5py content",
        "300..4000 random grids (1-4 dims, 9 data dtypes, float and integer axes, hostile axis names incl. case-only differences) through both formats; every node and two interior coordinates of every axis sliced by index and by name; 2e4..6e5 monotone rows with plateaus, narrow brackets, bracket mid-points, exact-node and first/last-node queries; every node of all shipped tables checked against the samplers' preconditions.",
        "Trusted: h5py, astropy.io.fits. Axis names are restricted to what both formats can carry (no '/', no leading/trailing blanks, ASCII). Slicing along a length-1 axis is not exercised. Open findings, each with a fixed witness: an int8 axis in FITS (grid-fits:int8-axis), CDF rows of the unused version-0 table that start above 0 (shipped:nuleptonsim-cdf-first-value).",
        "5 (C18)",
    ),
    "C19": (
        "exploration",
        "runtime monitors on the real functions: round-trip / monotonicity / endpoint oracles, icontract post-conditions, independent per-layer reference, bit comparison of the two copies, float32 / int64 pressures and int64 / float32 / uint8 altitudes (arrays and numpy scalars) against the same numbers as doubles",
        "Observed executions of both shipped copies on 10^5..10^6 altitudes and pressures, including every double within 64 ulps of each of the seven layer boundaries (enumerated), scalar/0-d/2-d call forms and the endpoints; every stated bound (1e-6 km, 1e-6 relative, 3e-7 steps) is asserted on each value. Held-on-observed, not a proof: the input space is all doubles in a range.",
        "Trusted: numpy/libm elementary functions; the independent reference uses the published 1976 layer constants. Integer and single-precision inputs are judged against the double-precision answer of the converted values.",
        "5 (C19)",
    ),
}

NOT_YET = "check not built yet in this session (see DESIGN.md section 5 for the planned monitor)"


def main():
    props = {}
    with open(os.path.join(ROOT, "properties.jsonl")) as f:
        for line in f:
            p = json.loads(line)
            props[p["id"]] = p
    checks = []
    for pid in ALL:
        if pid not in CHECKS:
            continue
        cat, tech, text, note, ref = CHECKS[pid]
        tech = tech + WAVE17.get(pid, "") + "; sys.monitoring reach table of the anchored source files (functions entered, lines never executed) recorded in the evidence"
        checks.append(
            {
                "property_id": pid,
                "quick_cmd": f"./check {pid} quick",
                "thorough_cmd": f"./check {pid} thorough",
                "evidence_file": f"evidence/{pid}.json",
                "replay_cmd_template": f"./check {pid} --replay {{path}}",
                "engine": "nssmon",
                "level_claimed": {"category": cat, "text": text, "design_ref": f"DESIGN.md section {ref}"},
                "level_note": note,
                "technique": tech,
            }
        )
    man = {
        "version": 1,
        "setup_cmd": "./check --setup",
        "hooks": {
            "guard": "NUSPACESIM_VERIF",
            "enable": "export NUSPACESIM_VERIF=1 (./check does); with NUSPACESIM_VERIF_DTYPE=float64 the Cherenkov kernel (CphotAng) runs in double precision. Python sources need no build; zsteps.cpp is recompiled from the working tree by ./check through a pybind11 shim.",
            "baseline_off_cmd": "cd /repo && env -u NUSPACESIM_VERIF -u NUSPACESIM_VERIF_DTYPE /venv/bin/python -m pytest -ra -q -p no:cacheprovider --timeout=900 --continue-on-collection-errors",
            "source_commits": ["4d6caab"],
            "add_only": True,
        },
        "engines": [
            {
                "name": "nssmon",
                "path": "nssmon/",
                "serves_properties": [c["property_id"] for c in checks],
                "kind_free_text": "runtime monitoring: probes/contracts on the real code, reference-model and metamorphic oracles over hostile generated workloads, schedule/fault/crash injection, ASan+UBSan on zsteps.cpp; three-valued verdicts",
            }
        ],
        "checks": checks,
        "not_applicable": [{"property_id": pid, "reason": NOT_YET} for pid in ALL if pid not in CHECKS],
        "notes": "Every check is ./check <id> quick|thorough (VERIF_SEED honoured). Known findings: known_findings.json. Seeded breaking changes and which check catches them: seeded/ and DESIGN.md section 8.",
    }
    with open(os.path.join(ROOT, "MANIFEST.json"), "w") as f:
        json.dump(man, f, indent=1)
    print("MANIFEST.json:", len(checks), "checks,", len(man["not_applicable"]), "not yet claimed")


if __name__ == "__main__":
    main()
