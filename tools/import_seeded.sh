#!/bin/bash
# tools/import_seeded.sh <Cxx> [suffix]   copy a sub-agent's deliverable into seeded/<Cxx>-<k>/
ID="$1"; SUF="${2:-}"; K="${SUF:-1}"
SRC=/tmp/mut/$ID/_out; DST=/verif/seeded/$ID-$K
mkdir -p "$DST"
cp "$SRC/patch$SUF.diff" "$DST/patch.diff" && cp "$SRC/demo$SUF.py" "$DST/demo.py" && cp "$SRC/meta$SUF.json" "$DST/meta.agent.json"
# demos refer to their own worktree path; make them location independent
sed -i "s#/tmp/mut/$ID/src#/repo/src#g; s#/tmp/mut/$ID#/repo#g" "$DST/demo.py"
python3 - "$DST" "$ID" <<'PY'
import json,sys
d,pid=sys.argv[1],sys.argv[2]
a=json.load(open(f"{d}/meta.agent.json"))
m={"property":pid,"summary":a.get("summary"),"needs":a.get("needs"),"files":a.get("files"),"why_tests_pass":a.get("why_tests_pass"),"origin":"independent sub-agent given only the property text and a scratch worktree","verified":None,"caught_by":None}
json.dump(m,open(f"{d}/meta.json","w"),indent=1)
PY
rm "$DST/meta.agent.json"; ls "$DST"
