#!/bin/bash
# tools/import_wave.sh <srcroot> <wave> <Cxx> [suffix]   copy a sub-agent's deliverable (srcroot/Cxx/_out) into seeded/<Cxx>-<next k>/
ROOT="$1"; WAVE="$2"; ID="$3"; SUF="${4:-}"
SRC=$ROOT/$ID/_out
[ -f "$SRC/patch$SUF.diff" ] || { echo "no $SRC/patch$SUF.diff"; exit 1; }
K=1; while [ -d /verif/seeded/$ID-$K ]; do K=$((K+1)); done
DST=/verif/seeded/$ID-$K
mkdir -p "$DST"
cp "$SRC/patch$SUF.diff" "$DST/patch.diff" && cp "$SRC/demo$SUF.py" "$DST/demo.py" && cp "$SRC/meta$SUF.json" "$DST/meta.agent.json"
sed -i "s#$ROOT/$ID/src#/repo/src#g; s#$ROOT/$ID#/repo#g" "$DST/demo.py"
python3 - "$DST" "$ID" "$WAVE" <<'PY'
import json,sys
d,pid,w=sys.argv[1],sys.argv[2],int(sys.argv[3])
try:
    a=json.load(open(f"{d}/meta.agent.json"))
except Exception as e:
    a={"summary":open(f"{d}/meta.agent.json").read()[:2000]}
m={"property":pid,"wave":w,"summary":a.get("summary"),"needs":a.get("needs"),"files":a.get("files"),"why_tests_pass":a.get("why_tests_pass"),"origin":"independent sub-agent given only the property text and a scratch worktree","verified":None,"caught_by":None}
json.dump(m,open(f"{d}/meta.json","w"),indent=1)
PY
rm "$DST/meta.agent.json"; echo "$DST: $(ls $DST | tr '\n' ' ')"
