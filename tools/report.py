#!/usr/bin/env python3
"""Turns the JSON written by `tools/run_mutants.py --out ...` into selftest/RESULTS.md,
seeded/README.md and the 'verified' / 'caught_by' fields of seeded/<name>/meta.json.

usage: tools/report.py [selftest/results.json] [seeded/results.json]
"""
import json
import os
import sys

ROOT = os.path.dirname(os.path.dirname(os.path.abspath(__file__)))


def first_line(r):
    for cid, v in r.get("results", {}).items():
        for l in v["lines"]:
            if l.startswith("  "):
                return cid, l.strip()[:160].replace("|", "/")
    return None, ""


def mutants(path):
    res = json.load(open(path))
    muts = {m["id"]: m for m in json.load(open(os.path.join(ROOT, "selftest", "mutants.json")))}
    out = ["# Sensitivity runs: deliberate breaking changes (selftest/mutants.json)", "", "Each change is a single string replacement applied to a throw-away worktree of /repo HEAD", "(`tools/run_mutants.py`); `tests` = the repository's 45 tests still pass with the change", "(a change the existing tests already catch is listed but is not a 'surviving' change).", "", "| change | property | file | tests pass | check result | first witness |", "|---|---|---|---|---|---|"]
    n = c = 0
    for r in res:
        m = muts.get(r["id"], {})
        cid, fl = first_line(r)
        n += 1
        c += r["status"] == "caught"
        out.append(f"| {r['id']} | {r['property']} | {os.path.basename(m.get('file', ''))} | {r.get('tests_pass')} | {r['status']} | {fl} |")
    out += ["", f"{c} of {n} caught."]
    return out


def seeded(path):
    res = json.load(open(path))
    out = ["# Breaking changes written by independent sub-agents", "", "Each directory holds `patch.diff` (against /repo HEAD at the time), `demo.py` (exits non-zero with the", "change, 0 without) and `meta.json`. The sub-agent saw only the property text and a scratch", "worktree. Verification here (`tools/run_mutants.py --seeded`): the patch applies to a fresh", "worktree, the 45 repository tests pass with it, the demonstration exits non-zero with it and 0 on", "the unchanged tree, and the listed check(s) were run against the patched worktree (NSS_REPO).", "", "| change | property | needs | tests pass | demo with / without | caught by | first witness |", "|---|---|---|---|---|---|---|"]
    for r in res:
        d = os.path.join(ROOT, "seeded", r["id"])
        mp = os.path.join(d, "meta.json")
        meta = json.load(open(mp))
        cid, fl = first_line(r)
        caught_by = [k for k, v in r.get("results", {}).items() if v["exit"] == 1]
        meta["verified"] = {"patch_applies": r["status"] != "patch-does-not-apply", "tests_pass_with_change": r.get("tests_pass"), "demo_exit_with_change": r.get("demo_exit_with_change"), "demo_exit_without_change": r.get("demo_exit_clean")}
        if r["status"] == "neutralised":
            caught_by = []
            fl = "neutralised by " + meta.get("neutralised_by", "a later fix")[:60] + "...: harmless now, demo passes, check silent (was caught before)"
        meta["caught_by"] = caught_by
        meta["what_i_ran"] = f"tools/run_mutants.py --seeded --only {r['id']}  (fresh worktree of /repo HEAD; pytest; demo.py with and without the change; ./check <id> quick with NSS_REPO=<worktree>)"
        meta["first_witness"] = fl
        json.dump(meta, open(mp, "w"), indent=1)
        needs = (meta.get("needs") or "").replace("|", "/").replace("\n", " ")[:180]
        out.append(f"| {r['id']} | {r['property']} | {needs} | {r.get('tests_pass')} | {r.get('demo_exit_with_change')} / {r.get('demo_exit_clean')} | {', '.join(caught_by) or ('(neutralised)' if r['status'] == 'neutralised' else 'NOT CAUGHT')} | {fl} |")
    nz = sum(1 for r in res if r["status"] == "neutralised")
    n = len(res) - nz
    c = sum(1 for r in res if r["status"] == "caught")
    out += ["", f"{c} of {n} caught." + (f" {nz} further changes were made harmless by a later `fix:` commit in /repo (they removed a rejection that D17 now performs up front); they were caught before that fix, and the check is silent on them now, as it must be." if nz else "")]
    return out


def main():
    a = sys.argv[1:]
    mp = a[0] if a else os.path.join(ROOT, "selftest", "results.json")
    sp = a[1] if len(a) > 1 else os.path.join(ROOT, "seeded", "results.json")
    if os.path.exists(mp):
        open(os.path.join(ROOT, "selftest", "RESULTS.md"), "w").write("\n".join(mutants(mp)) + "\n")
    if os.path.exists(sp):
        open(os.path.join(ROOT, "seeded", "README.md"), "w").write("\n".join(seeded(sp)) + "\n")


if __name__ == "__main__":
    main()
