"""Independent astrometry for the target-mode checks.

Altitudes are obtained by a different route from the code's AltAz frame: the direction
(ICRS -> ITRS for the source; GCRS body position -> ITRS, made topocentric by subtracting
the detector's ITRS position, for Sun and Moon) is dotted with the geodetic normal of the
detector. The Moon phase angle comes from the Sun-Moon-Earth vectors. A coarse,
astropy-independent GMST hour-angle formula gives a sanity band against swapped or
mis-scaled coordinates.
"""
import math

import numpy as np


def geodetic_normal(lat, lon):
    return np.array([math.cos(lat) * math.cos(lon), math.cos(lat) * math.sin(lon), math.sin(lat)])


def source_altitude(ra, dec, times, lat, lon):
    import astropy.units as u
    from astropy.coordinates import ITRS, SkyCoord

    c = SkyCoord(ra=ra * u.rad, dec=dec * u.rad, frame="icrs")
    it = c.transform_to(ITRS(obstime=times))
    v = it.cartesian.xyz.value
    v = v / np.sqrt(np.sum(v * v, axis=0))
    n = geodetic_normal(lat, lon)
    return np.arcsin(np.clip(n @ v.reshape(3, -1), -1, 1))


def detector_itrs_m(lat, lon, height_km):
    import astropy.units as u
    from astropy.coordinates import EarthLocation

    loc = EarthLocation.from_geodetic(lon=lon * u.rad, lat=lat * u.rad, height=height_km * 1000 * u.m)
    return np.array([loc.x.to_value(u.m), loc.y.to_value(u.m), loc.z.to_value(u.m)])


def body_altitude(body, times, lat, lon, height_km):
    import astropy.units as u
    from astropy.coordinates import ITRS, get_body

    b = get_body(body, times)
    it = b.transform_to(ITRS(obstime=times))
    xyz = it.cartesian.xyz.to_value(u.m).reshape(3, -1)
    top = xyz - detector_itrs_m(lat, lon, height_km)[:, None]
    top = top / np.sqrt(np.sum(top * top, axis=0))
    return np.arcsin(np.clip(geodetic_normal(lat, lon) @ top, -1, 1))


def moon_phase_angle(times):
    """Angle at the Moon between the directions to the Sun and to the Earth (0 = full, pi = new)."""
    import astropy.units as u
    from astropy.coordinates import get_body

    s = get_body("sun", times).cartesian.xyz.to_value(u.km).reshape(3, -1)
    m = get_body("moon", times).cartesian.xyz.to_value(u.km).reshape(3, -1)
    a = s - m  # moon -> sun
    b = -m  # moon -> earth
    cr = np.cross(a.T, b.T)
    return np.arctan2(np.sqrt(np.sum(cr * cr, axis=1)), np.sum(a * b, axis=0))


def coarse_source_altitude(ra, dec, jd_utc, lat, lon):
    """sin(alt) = sin(lat) sin(dec) + cos(lat) cos(dec) cos(H), H = GMST + lon - RA.
    GMST from the UT1 ~ UTC Julian date (IAU 1982 linear part); no precession, nutation,
    aberration: good to about 0.5 deg over 2000-2030."""
    d = np.asarray(jd_utc, dtype=np.float64) - 2451545.0
    gmst = np.radians((280.46061837 + 360.98564736629 * d) % 360.0)
    H = gmst + lon - ra
    return np.arcsin(np.clip(math.sin(lat) * math.sin(dec) + math.cos(lat) * math.cos(dec) * np.cos(H), -1, 1))
