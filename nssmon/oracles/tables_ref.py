"""Independent table arithmetic: explicit-neighbour bilinear blend, forward CDF
evaluation by bracket search, and row inversion that knows about plateaus.

Tables are read with h5py directly (not through NssGrid) so the oracle does not
depend on the reader under test.
"""
import os

import numpy as np

TAU_MASS = 1.77686  # GeV
EPS32 = float(np.finfo(np.float32).eps)  # 1.1920929e-07, the "1.19e-7 floor"


def data_dir():
    import nuspacesim

    return os.path.join(os.path.dirname(nuspacesim.__file__), "data")


def read_h5_grid(path, group="/"):
    import h5py

    with h5py.File(path, "r") as f:
        g = f[group]
        data = g["__nss_grid_data__"][()]
        names = [g.attrs[f"AXIS{i}"] for i in range(data.ndim)]
        names = [n.decode() if isinstance(n, bytes) else str(n) for n in names]
        axes = [g["__nss_grid_axes__"][n][()] for n in names]
    return np.asarray(data), [np.asarray(a) for a in axes], names


def load_tau_tables(version):
    d = os.path.join(data_dir(), "nupyprop_tables")
    cdf = read_h5_grid(os.path.join(d, f"nu2tau_cdf.{version}.h5"))
    pexit = read_h5_grid(os.path.join(d, f"nu2tau_pexit.{version}.h5"))
    return cdf, pexit


def cell(ax, x):
    """Index i and weight t with ax[i] <= x <= ax[i+1], x = ax[i] + t (ax[i+1]-ax[i])."""
    ax = np.asarray(ax)
    x = np.asarray(x, dtype=np.float64)
    i = np.searchsorted(ax, x, side="right") - 1
    i = np.clip(i, 0, ax.size - 2)
    t = (x - ax[i]) / (ax[i + 1] - ax[i])
    return i, t


def bilinear(data, ax0, ax1, x0, x1):
    """Explicit 4-neighbour blend; data may have trailing dimensions (rows)."""
    i, t = cell(ax0, x0)
    j, s = cell(ax1, x1)
    extra = (None,) * (data.ndim - 2)
    t_ = t[(...,) + extra]
    s_ = s[(...,) + extra]
    return (
        (1 - t_) * (1 - s_) * data[i, j]
        + t_ * (1 - s_) * data[i + 1, j]
        + (1 - t_) * s_ * data[i, j + 1]
        + t_ * s_ * data[i + 1, j + 1]
    )


def neighbours_minmax(data, ax0, ax1, x0, x1):
    i, _ = cell(ax0, x0)
    j, _ = cell(ax1, x1)
    stack = np.stack([data[i, j], data[i + 1, j], data[i, j + 1], data[i + 1, j + 1]])
    return stack.min(axis=0), stack.max(axis=0)


def forward_cdf(rows, znodes, z):
    """F(z) for each event: piecewise-linear through (znodes, rows[k])."""
    z = np.asarray(z, dtype=np.float64)
    k = np.searchsorted(znodes, z, side="right") - 1
    k = np.clip(k, 0, znodes.size - 2)
    n = np.arange(rows.shape[0])
    f0, f1 = rows[n, k], rows[n, k + 1]
    w = (z - znodes[k]) / (znodes[k + 1] - znodes[k])
    return f0 + w * (f1 - f0)


def invert_rows(rows, znodes, u):
    """Piecewise-linear inverse of each non-decreasing row at u (strictly inside its range).

    Returns (z, zlo, zhi): z the inverse on the rising bracket, and [zlo, zhi] the set of
    all z with F(z) == u (a single point unless u sits exactly on an interior plateau).
    """
    u = np.asarray(u, dtype=np.float64)
    n = np.arange(rows.shape[0])
    lt = rows < u[:, None]
    k = lt.sum(axis=1) - 1  # last index with row < u  (rows non-decreasing)
    k = np.clip(k, 0, znodes.size - 2)
    f0, f1 = rows[n, k], rows[n, k + 1]
    with np.errstate(divide="ignore", invalid="ignore"):
        z = znodes[k] + (u - f0) * ((znodes[k + 1] - znodes[k]) / (f1 - f0))
    le = rows <= u[:, None]
    khi = le.sum(axis=1) - 1  # last index with row <= u
    khi = np.clip(khi, 0, znodes.size - 1)
    eq = rows[n, np.clip(k + 1, 0, znodes.size - 1)] == u
    zlo = np.where(eq, znodes[np.clip(k + 1, 0, znodes.size - 1)], z)
    zhi = np.where(eq, znodes[khi], z)
    return z, zlo, zhi
