"""Independent geometric aperture of the diffuse region, integrated in *local-zenith*
coordinates at the ground spot (a different parametrisation from the line-of-sight
centred one the simulator samples in).

  A = az * R^2 * Int_{thetaS(l_min)}^{thetaS(l_max)} sin(thetaS) I(thetaS) dthetaS
  I = Int_{48 deg}^{90 deg} cos(t) sin(t) W(t; theta_NV, alpha) dt        (t: zenith angle)
  W = azimuth width of the circle of zenith angle t lying within alpha of the line of sight,
      2 acos((cos alpha - cos t cos theta_NV) / (sin t sin theta_NV)) clipped to [0, 2 pi]

thetaS is the Earth-central angle between the detector and the spot, theta_NV the zenith
angle of the detector seen from the spot, az the sampled azimuth range about the nadir.
"""
import math

from scipy.integrate import quad

B_MAX = math.radians(42.0)


def los(R, h, thS):
    Dr = R + h
    l = math.sqrt(Dr * Dr + R * R - 2 * Dr * R * math.cos(thS))
    cos_nv = (Dr * math.cos(thS) - R) / l
    return l, max(-1.0, min(1.0, cos_nv))


def central_angle_of_length(R, h, l):
    Dr = R + h
    c = (Dr * Dr + R * R - l * l) / (2 * Dr * R)
    return math.acos(max(-1.0, min(1.0, c)))


def width(t, th_nv, alpha):
    s = math.sin(t) * math.sin(th_nv)
    if s <= 0:
        sep = abs(t - th_nv) if s == 0 else math.pi
        return 2 * math.pi if sep <= alpha else 0.0
    c = (math.cos(alpha) - math.cos(t) * math.cos(th_nv)) / s
    if c >= 1:
        return 0.0
    if c <= -1:
        return 2 * math.pi
    return 2 * math.acos(c)


def inner(th_nv, alpha):
    t0, t1 = 0.5 * math.pi - B_MAX, 0.5 * math.pi
    lo, hi = max(t0, th_nv - alpha), min(t1, th_nv + alpha)
    if hi <= lo:
        return 0.0
    pts = [p for p in (th_nv, alpha - th_nv, 2 * math.pi - alpha - th_nv) if lo < p < hi]
    v, _ = quad(lambda t: math.cos(t) * math.sin(t) * width(t, th_nv, alpha), lo, hi, points=pts or None, epsabs=0, epsrel=1e-11, limit=400)
    return v


def aperture(R, h, l_min, l_max, alpha, az):
    a, b = central_angle_of_length(R, h, l_min), central_angle_of_length(R, h, l_max)

    def f(thS):
        _, cnv = los(R, h, thS)
        return math.sin(thS) * inner(math.acos(cnv), alpha)

    # kinks where the cone touches the horizon (theta_NV + alpha = 90 deg) / the 42 deg limit
    pts = []
    for target in (0.5 * math.pi - alpha, 0.5 * math.pi - B_MAX - alpha, 0.5 * math.pi - B_MAX + alpha, 0.5 * math.pi - B_MAX):
        lo_, hi_ = a, b
        flo = math.acos(los(R, h, lo_)[1]) - target
        fhi = math.acos(los(R, h, hi_)[1]) - target
        if flo * fhi < 0:
            for _ in range(200):
                mid = 0.5 * (lo_ + hi_)
                fm = math.acos(los(R, h, mid)[1]) - target
                if flo * fm <= 0:
                    hi_ = mid
                else:
                    lo_, flo = mid, fm
            pts.append(0.5 * (lo_ + hi_))
    v, err = quad(f, a, b, points=sorted(pts) or None, epsabs=0, epsrel=1e-9, limit=400)
    return az * R * R * v, az * R * R * err
