"""Explicit 3-D vector geometry on a sphere (no spherical-triangle shortcuts).

All angles in radians, distances in km. Vectorised with numpy but every quantity is
built from Cartesian vectors: dot products, cross products, norms, atan2.
"""
import numpy as np

R_ASTROPY = 6378.1  # km, astropy.constants.R_earth (the radius the geometry stage uses)


def unit_from_latlon(lat, lon):
    return np.stack([np.cos(lat) * np.cos(lon), np.cos(lat) * np.sin(lon), np.sin(lat)], axis=-1)


def norm(v):
    return np.sqrt(np.sum(v * v, axis=-1))


def angle_between(a, b):
    """Angle between vectors via atan2(|a x b|, a.b) (well conditioned everywhere)."""
    c = np.cross(a, b)
    return np.arctan2(norm(c), np.sum(a * b, axis=-1))


def altitude_along(R, l, beta):
    """Altitude above a sphere of radius R of the point at distance l along a straight
    line leaving the surface at elevation beta: |S + l d| - R with S = (0, R),
    d = (cos beta, sin beta). Written in the cancellation-free form."""
    l = np.asarray(l, dtype=np.float64)
    q = l * l + 2.0 * R * l * np.sin(beta)
    return q / (np.sqrt(R * R + q) + R)


def ground_offset(R, s, beta):
    """Great-circle angle between the exit point and the sub-point of the position at
    distance s along a trajectory with emergence (elevation) angle beta."""
    return np.arctan2(s * np.cos(beta), R + s * np.sin(beta))


def detector_vector(R, h, lat, lon):
    return (R + h) * unit_from_latlon(lat, lon)


def horizon_nadir_angle(R, h):
    """Nadir angle of the limb seen from altitude h."""
    return np.arcsin(R / (R + h))


def los_length_at_nadir(R, h, alpha):
    """Distance from the detector to the first intersection of the ray at nadir angle
    alpha with the sphere (ray-sphere intersection, near root)."""
    D = R + h
    b = D * np.cos(alpha)
    disc = b * b - (D * D - R * R)
    return b - np.sqrt(np.maximum(disc, 0.0))


def tangent_length(R, h):
    D = R + h
    return np.sqrt(D * D - R * R)


def emergence_from_vectors(Dvec, Svec, theta, phi, sign=+1.0):
    """Earth-emergence angle of a trajectory through ground spot S that makes angle theta
    with the line of sight S->D, at azimuth phi about it.

    Frame: e_v = (D - S)/|D - S|; e_1 the unit vector in the plane of e_v and the local
    vertical n, perpendicular to e_v, pointing *away* from n (sign=+1) or towards it
    (sign=-1); e_2 = e_v x e_1. Returns (beta, n, traj)."""
    n = Svec / norm(Svec)[..., None]
    ev = Dvec - Svec
    l = norm(ev)
    ev = ev / l[..., None]
    # component of n perpendicular to ev
    nperp = n - np.sum(n * ev, axis=-1)[..., None] * ev
    npn = norm(nperp)
    safe = np.where(npn > 0, npn, 1.0)
    e1 = -sign * nperp / safe[..., None]
    e2 = np.cross(ev, e1)
    traj = np.cos(theta)[..., None] * ev + np.sin(theta)[..., None] * (np.cos(phi)[..., None] * e1 + np.sin(phi)[..., None] * e2)
    cosz = np.sum(traj * n, axis=-1)
    zen = np.arctan2(norm(np.cross(traj, n)), cosz)
    return 0.5 * np.pi - zen, n, traj, l
