"""1976 US Standard Atmosphere written per layer with Python floats (math module only).

Independent of the repository's vectorised implementation: explicit loop over the
layer table, scalar arithmetic. Constants are the published ones (geopotential
base heights, lapse rates, base temperatures, base pressure ratios, g0 M / R*).
"""
import math

R_EARTH = 6371.0  # km, radius used for geometric <-> geopotential altitude
P0 = 101325.0
H_B = [0.0, 11.0, 20.0, 32.0, 47.0, 51.0, 71.0, 84.852]
L_B = [-6.5, 0.0, 1.0, 2.8, 0.0, -2.8, -2.0, 0.0]
T_B = [288.15, 216.65, 216.65, 228.65, 270.65, 270.65, 214.65, 186.946]
PR_B = [1.0, 2.233611e-1, 5.403295e-2, 8.5666784e-3, 1.0945601e-3, 6.6063531e-4, 3.9046834e-5, 3.68501e-6]
GMR = 34.163195


def geopotential(z):
    return z * R_EARTH / (z + R_EARTH)


def geometric(h):
    return R_EARTH * h / (R_EARTH - h)


def layer_of_h(h):
    j = 0
    for k in range(1, len(H_B)):
        if H_B[k] <= h:
            j = k
    return j


def pressure(z):
    """Pressure in Pa at geometric altitude z km (z >= 0)."""
    if z == math.inf:
        return 0.0
    h = geopotential(z)
    j = layer_of_h(h)
    pb = P0 * PR_B[j]
    if L_B[j] == 0.0:
        return pb * math.exp(-GMR / T_B[j] * (h - H_B[j]))
    return pb * (T_B[j] / (T_B[j] + L_B[j] * (h - H_B[j]))) ** (GMR / L_B[j])


def layer_of_p(p):
    j = 0
    for k in range(1, len(H_B)):
        if P0 * PR_B[k] >= p:
            j = k
    return j


def altitude(p):
    """Geometric altitude km of pressure p Pa (0 < p)."""
    if p <= 0:
        return math.inf
    j = layer_of_p(p)
    pb = P0 * PR_B[j]
    if L_B[j] == 0.0:
        h = H_B[j] + T_B[j] / GMR * math.log(pb / p)
    else:
        h = H_B[j] + T_B[j] / L_B[j] * ((pb / p) ** (L_B[j] / GMR) - 1.0)
    return geometric(h)


def boundary_altitudes():
    """Geometric altitudes (km) of the seven interior layer boundaries."""
    return [geometric(h) for h in H_B[1:]]


def boundary_pressures():
    return [P0 * r for r in PR_B[1:]]
