"""Scalar, loop-based double-precision evaluation of the Cherenkov shower model
(DESIGN.md Appendix A). Python ``math`` only — every sum is an explicit loop over one
step, one wavelength, one ring, one energy decade, so that einsum-axis, cumulative-sum
direction and boolean-mask errors in the vectorised kernel have nothing to be copied
from.

``run(beta, alt, E100PeV, det_alt, cloud_top)`` -> (photon density at the detector
[m^-2], effective Cherenkov angle [deg]).  ``steps(...)`` exposes the stepping and the
kept segment altitudes for the cloud monitors.
"""
import math

PI = 3.1415926
RADE = 6378.14
ZORB = 525.0
ZTOP = 65.0
DL = 0.1
ECRIT = 0.710 / (7.4 + 0.96)
ALPHA = 1.0 / 137.04
WAVE1 = [200.0 + 25.0 * k for k in range(29)]
WMEAN = [w + 12.5 for w in WAVE1[:-1]]
OZ_ZETA = [5.35, 10.2, 14.75, 19.15, 23.55, 28.1, 32.8, 37.7, 42.85, 48.25, 100.0]
OZ_DEPTH = [15.0, 9.0, 10.0, 31.0, 71.0, 87.2, 57.0, 29.4, 10.9, 3.2, 1.3]
OZ_DSUM = [310.0, 301.0, 291.0, 260.0, 189.0, 101.8, 44.8, 15.4, 4.5, 1.3, 0.1]
AOD55 = [0.250, 0.136, 0.086, 0.065, 0.055, 0.049, 0.045, 0.042, 0.038, 0.035, 0.032, 0.029, 0.026, 0.023, 0.020, 0.017, 0.015, 0.012, 0.010, 0.007, 0.006, 0.004, 0.003, 0.003, 0.002, 0.002, 0.001, 0.001, 0.001, 0.001]
DFAOD55 = [AOD55[i] - AOD55[i + 1] for i in range(29)] + [0.0]
AP = [-1.2971, 0.22046e-01, -0.19505e-04, 0.94394e-08, -0.21938e-11, 0.19390e-15]


def _poly(c, x):
    r = 0.0
    for a in reversed(c):
        r = r * x + a
    return r


ABETAF = [(1.0 / _poly(AP, w)) / 0.158 for w in WMEAN]
OKAPPA = [-1e-3 * 10.0 ** (110.5 - 44.21 * math.log10(w)) for w in WMEAN]
PYIELD = [2e12 * DL * PI * ALPHA * (1.0 / WAVE1[k] - 1.0 / WAVE1[k + 1]) for k in range(28)]
TRRB = [(400.0 / w) ** 4 for w in WMEAN]


def theta_view(beta):
    return math.asin(RADE / (RADE + ZORB) * math.cos(beta))


def stepping(alt, sin_tv):
    """0.1 km steps along the trajectory from alt to 65 km: (mid-step altitudes, dz)."""
    z = alt
    zs, dzs = [], []
    rmax = RADE + ZORB
    while z <= ZTOP:
        rad = z + RADE
        tp = math.acos(sin_tv * (rmax / rad))
        dz = math.sqrt(rad * rad + DL * DL - 2.0 * rad * DL * math.cos(PI / 2.0 + tp)) - rad
        dzs.append(dz)
        zs.append(z + dz / 2.0)
        z += dz
        if len(zs) > 200000:
            raise RuntimeError("stepping does not terminate")
    return zs, dzs


def atmosphere(z):
    """Vertical depth X [g/cm^2] and density rho [g/cm^3] (three-layer parametrisation)."""
    if z < 11:
        b = (z - 44.34) / -11.861
        return b ** (1 / 0.19), -1.0e-5 * (1 / 0.19) / (-11.861) * b ** ((1.0 / 0.19) - 1.0)
    if z < 25:
        x = math.exp((z - 45.5) / -6.34)
        return x, -1e-5 * (1.0 / -6.34) * x
    r = math.sqrt(28.920 + 3.344 * z)
    x = math.exp(13.841 - r)
    return x, (0.5e-5 * 3.344 / r) * x


def ozone_column(z):
    if z < 5.35:
        return 310.0 + ((5.35 - z) / 5.35) * 15.0
    if z >= 100:
        return 0.1
    i = 0
    while OZ_ZETA[i] < z:  # first node at or above z
        i += 1
    return OZ_DSUM[i] + ((OZ_ZETA[i] - z) / (OZ_ZETA[i] - OZ_ZETA[i - 1])) * OZ_DEPTH[i]


def tracklen(e0, e, s):
    return ((0.89 * e0 - 1.2) / (e0 + e)) ** s / (1.0 + 1e-4 * s * e) ** 2


def distance_to_detector(beta, z, zdet, re):
    tv = math.asin((re / (re + zdet)) * math.cos(beta))
    tp = math.acos((re / (re + z)) * math.cos(beta))
    return math.sin(0.5 * math.pi - tv - tp) / math.sin(tv) * (z + re)


def steps(beta, alt, e100):
    """Kept steps of the shower: list of dicts (z, D_ahead, T_sofar, Z_ahead, theta_p, n, s, N, e2)."""
    beta = max(beta, math.radians(1.0))
    E = e100 * 1e8
    tv = theta_view(beta)
    stv = math.sin(tv)
    zs, dzs = stepping(alt, stv)
    n = len(zs)
    X, g = [0.0] * n, [0.0] * n
    for i in range(n):
        X[i], rho = atmosphere(zs[i])
        g[i] = rho * DL * 1e5
    T = [0.0] * n
    acc = 0.0
    for i in range(n):
        acc += g[i]
        T[i] = acc
    Dah = [0.0] * n
    acc = 0.0
    for i in range(n - 1, -1, -1):
        acc += g[i]
        Dah[i] = acc
    o = [0.0] * n
    prev = ozone_column(alt)
    for i in range(n):
        cur = ozone_column(zs[i])
        o[i] = (prev - cur) / dzs[i] * DL
        prev = cur
    Zah = [0.0] * n
    acc = 0.0
    for i in range(n - 1, -1, -1):
        acc += o[i]
        Zah[i] = acc
    y = math.log(E / ECRIT)
    kept = []
    for i in range(n):
        if not zs[i] <= ZORB:
            continue
        nair = 1.0 + 0.000296 * (X[i] / 1032.9414) * (273.2 / (204.0 + 0.091 * X[i]))
        if nair == 1.0 or nair == 0.0:
            continue
        t = T[i] / 36.66
        s = 3.0 * t / (t + 2.0 * y)
        N = 0.31 / math.sqrt(y) * math.exp(t * (1.0 - 1.5 * math.log(s)))
        if N < 0:
            N = 0.0
        if N < 1 and s > 1:
            continue
        e2 = 1150.0 + 454.0 * math.log(s)
        if e2 <= 0:
            continue
        tp = math.acos(stv * ((RADE + ZORB) / (RADE + zs[i])))
        kept.append({"z": zs[i], "D": Dah[i], "T": T[i], "Z": Zah[i], "tp": tp, "n": nair, "s": s, "N": N, "e2": e2})
    return kept, tv, E, (zs, dzs)


def ring_a(x, d):
    """2 (1 - cos atan2(x, d)) in the cancellation-free form 4 sin^2(atan2(x, d)/2)."""
    h = math.sin(0.5 * math.atan2(x, d))
    return 4.0 * h * h


def run(beta, alt, e100, det_alt=525.0, cloud_top=-math.inf, detail=None):
    kept, tv, E, _ = steps(beta, alt, e100)
    beta_c = max(beta, math.radians(1.0))
    if len(kept) < 2:
        raise ValueError("fewer than two shower segments: outside the model's domain")
    if kept[-2]["z"] < cloud_top:
        return 0.0, 0.0
    M = int(math.log10(E)) + 2  # energy decades 10^1 .. 10^M MeV
    ehill = [10.0**m for m in range(1, M + 1)]
    photsum = 0.0
    q_list, thc_list, d_list = [], [], []
    best_N, d_at_max = -1.0, None
    for st in kept:
        s, nair, e2 = st["s"], st["n"], st["e2"]
        e0 = 44.0 - 17.0 * (s - 1.46) ** 2 if s >= 0.4 else 26.0
        e_c = 0.511 / math.sqrt(1.0 - 1.0 / (nair * nair))
        th_c = math.acos(1.0 / nair)
        tfrac = tracklen(e0, e_c, s)
        d = math.sin(PI / 2 - tv - st["tp"]) / math.sin(tv) * (RADE + st["z"])
        if st["N"] > best_N:  # first step of maximal particle number
            best_N, d_at_max = st["N"], d
        # light yield with Rayleigh, ozone and aerosol attenuation, summed over wavelength bins
        S = 0.0
        if not st["z"] < cloud_top:
            s2 = math.sin(th_c) ** 2
            if st["z"] < 30:
                m = int(st["z"])
                od = AOD55[m] - (st["z"] - m) * DFAOD55[m]
                cth = math.cos(PI / 2 - st["tp"])
            for k in range(28):
                yk = s2 * PYIELD[k] * math.exp(-st["D"] / 2974.0 * TRRB[k]) * math.exp(st["Z"] * OKAPPA[k])
                if st["z"] < 30:
                    yk *= math.exp(-od * ABETAF[k] / cth)
                S += yk
            S *= st["N"]
        q_list.append(S * tfrac)
        thc_list.append(th_c)
        d_list.append(d)
        if S == 0.0:
            continue
        # Hillas angular distribution: rings j = 1..floor(d tan th_c), adjacent energy decades
        jmax = int(math.floor(d * math.tan(th_c)))
        if jmax < 1:
            continue
        pw, dT = [], []
        t_hi = [tfrac if e_c >= e else tracklen(e0, e, s) for e in ehill]
        for m in range(M - 1):
            em = (e_c + ehill[m + 1]) / 2.0 if e_c >= ehill[m] else 5.0 * ehill[m]
            v = em / e2
            w = 0.0054 * em * (1.0 + v) / (1.0 + 13.0 * v + 8.3 * v * v)
            pw.append((em / 21.0) ** 2 / w)
            dT.append(max(0.0, t_hi[m] - t_hi[m + 1]))
        acc = 0.0
        a_prev = ring_a(0.0, d)
        for j in range(1, jmax + 1):
            a_mid = ring_a(j - 0.5, d)
            a_j = ring_a(float(j), d)
            for m in range(M - 1):
                if dT[m] == 0.0:
                    continue
                du = a_j * pw[m] - a_prev * pw[m]
                if du <= 0:
                    continue
                x = math.sqrt(a_mid * pw[m]) - 0.59
                acc += 0.777 * math.exp(-x / (0.478 if x < 0 else 0.380)) * du * dT[m]
            a_prev = a_j
        photsum += S * acc
    qsum = math.fsum(q_list)
    if qsum == 0:
        return 0.0, 0.0
    ave = math.fsum(q * t for q, t in zip(q_list, thc_list)) / qsum
    var = math.fsum((q / qsum) * (t - ave) ** 2 for q, t in zip(q_list, thc_list))
    nn = sum(1 for q, t in zip(q_list, thc_list) if q * t != 0)
    sig = math.sqrt(var * nn / (nn - 1)) if nn > 1 else math.sqrt(var)
    area = PI * (math.tan(ave) * 1e3 * d_at_max) ** 2
    dens = 0.5 * photsum / area
    scale = (distance_to_detector(beta_c, alt, ZORB, RADE) / distance_to_detector(beta_c, alt, det_alt, RADE)) ** 2
    if detail is not None:
        detail.update(ave=ave, sig=sig, area=area, photsum=photsum, scale=scale, nkept=len(kept), z_first=kept[0]["z"], z_penultimate=kept[-2]["z"], z_last=kept[-1]["z"])
    return dens * scale, math.degrees(ave + sig)
