"""Runs the repository's own test-suite with nssmon.pytest_probes loaded (thorough tiers)."""
import json
import os
import subprocess
import sys
import tempfile

from . import core


def run(ctx, prop):
    """Merge the monitors' observations for property `prop` into ctx."""
    fd, out = tempfile.mkstemp(prefix="probe_", suffix=".json", dir=core.WORK)
    os.close(fd)
    env = dict(os.environ, NSSMON_PROBE_OUT=out)
    try:
        r = subprocess.run([sys.executable, "-m", "pytest", "-q", "-p", "no:cacheprovider", "-p", "nssmon.pytest_probes", "--timeout=900", os.path.join(core.REPO, "test")], cwd=core.REPO, env=env, capture_output=True, text=True, timeout=1800)
        rec = json.load(open(out))
    except Exception as e:
        ctx.inconclusive_because(f"repository tests under probes could not be run: {e!r}")
        return
    finally:
        if os.path.exists(out):
            os.remove(out)
    if not rec.get("installed"):
        ctx.inconclusive_because(f"probes not installed in the pytest run: {rec.get('install_error')}")
        return
    n = 0
    for k, v in rec["counts"].items():
        if k.startswith(prop + ":"):
            ctx.count("repo-tests:" + k.split(":", 1)[1], v)
            n += v
    ctx.observe("repository_tests_under_probes", {"pytest_exit": rec.get("pytest_exit"), "counts": rec["counts"], "monitor_errors": rec.get("monitor_errors", [])[:3]})
    for v in rec["violations"]:
        if v["property"] == prop:
            ctx.violation(v["key"], "[repository test-suite as workload] " + v["what"], {"source": "pytest_probes"})
    if n == 0:
        ctx.inconclusive_because(f"the repository tests did not reach any {prop} monitor")
