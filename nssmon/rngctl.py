"""Control and observation of numpy's global generator as used by the stages.

The stages call ``np.random.uniform`` / ``np.random.rand`` through attribute lookup on
``numpy.random`` at call time, so replacing those attributes for the duration of a
call is seen by every stage without editing the repository.
"""
import contextlib

import numpy as np
import numpy.random as npr


class Spy:
    """Records every array handed out by uniform/rand (in [0,1) units and as returned)."""

    def __init__(self):
        self.calls = []  # list of (name, low, high, returned array)

    def draws(self):
        return [c[3] for c in self.calls]


@contextlib.contextmanager
def spy():
    s = Spy()
    o_uniform, o_rand = npr.uniform, npr.rand

    def uniform(low=0.0, high=1.0, size=None):
        r = o_uniform(low, high, size)
        s.calls.append(("uniform", low, high, np.array(r, copy=True)))
        return r

    def rand(*shape):
        r = o_rand(*shape)
        s.calls.append(("rand", 0.0, 1.0, np.array(r, copy=True)))
        return r

    npr.uniform, npr.rand = uniform, rand
    try:
        yield s
    finally:
        npr.uniform, npr.rand = o_uniform, o_rand


@contextlib.contextmanager
def stub(unit_source):
    """Replace uniform/rand: ``unit_source(n)`` returns n numbers in [0,1] that are
    mapped affinely onto [low, high] exactly as numpy does (low + (high-low)*x).

    Records the calls like ``spy``.
    """
    s = Spy()
    o_uniform, o_rand = npr.uniform, npr.rand

    def _n(size):
        if size is None:
            return 1, ()
        shp = tuple(np.atleast_1d(size).astype(int).tolist())
        return int(np.prod(shp)), shp

    def uniform(low=0.0, high=1.0, size=None):
        n, shp = _n(size)
        x = np.asarray(unit_source(n), dtype=np.float64).reshape(shp)
        r = low + (high - low) * x
        if size is None:
            r = float(r)
        s.calls.append(("uniform", low, high, np.array(r, copy=True)))
        return r

    def rand(*shape):
        n, shp = _n(shape if shape else None)
        r = np.asarray(unit_source(n), dtype=np.float64).reshape(shp)
        s.calls.append(("rand", 0.0, 1.0, np.array(r, copy=True)))
        return r

    npr.uniform, npr.rand = uniform, rand
    try:
        yield s
    finally:
        npr.uniform, npr.rand = o_uniform, o_rand


def constant(c):
    return lambda n: np.full(n, c, dtype=np.float64)


def cycling(values):
    values = np.asarray(values, dtype=np.float64)

    def src(n):
        return np.resize(values, n)

    return src


HOSTILE_UNIT = np.array(
    [0.0, 5e-324, 1e-300, 2.0**-1074, 2.0**-53, 1e-17, 1e-9, 0.25, 0.5, 0.75, 1 - 1e-9, 1 - 2.0**-52, 1 - 2.0**-53, 1.0]
)
HOSTILE_OPEN = HOSTILE_UNIT[1:-1]  # strictly inside (0,1)


def state_digest():
    import hashlib

    st = npr.get_state()
    return hashlib.sha256(st[1].tobytes() + bytes([st[2] % 256])).hexdigest()[:16]
