"""Schedule, interleaving and fault injection for the batch shower evaluation (C10, C14).

* AdversarialExecutor — a concurrent.futures.Executor handed to dask
  (``dask.config.set(scheduler="threads", pool=...)``): accepts every partition task, starts
  them in a seed-chosen permutation with seed-chosen concurrency and releases their results
  in a second seed-chosen permutation; both orders are recorded.
* forced_partition_size — replaces ``cphotang.db`` by a proxy whose ``from_sequence``
  forces the partition size (the source hard-codes 100).
* YieldInjector — sys.monitoring LINE events on the kernel's code objects; a seed-chosen
  fraction of them sleeps 1 us, forcing GIL hand-offs in the middle of the kernel; thread
  switch points actually taken are logged.
* frozen — makes every ndarray attribute of the shared kernel object read-only and records
  attribute writes during a batch.
* FailAt — picklable cloud function that raises InjectedFault for the event whose latitude is k.
"""
import concurrent.futures as cf
import contextlib
import hashlib
import sys
import threading
import time

import numpy as np


class InjectedFault(Exception):
    pass


FAULT_TYPES = [InjectedFault, IndexError, ValueError, KeyError, ZeroDivisionError, RuntimeError, FloatingPointError, LookupError, ArithmeticError, TypeError, AttributeError, OverflowError, AssertionError, OSError, StopIteration, StopAsyncIteration]


class FailAt:
    """cloudf(lat, long): raises for the event with lat == k (events carry lat = index).
    The exception class varies (a handler written for one type must not swallow a failure)."""

    def __init__(self, k, top=-np.inf, exc=InjectedFault, nan=None):
        self.k = k
        self.top = top
        self.exc = exc
        self.nan = NAN_TOPS if nan is None else nan

    def __call__(self, lat, long):
        if self.k is not None and float(lat) == float(self.k):
            raise self.exc(f"injected failure at event {self.k}")
        if self.top == "varying":
            return varying_top(lat, self.nan)
        return self.top


NAN_TOPS = True  # module default, switched off by a check whose kernel raises on a NaN cloud top


def varying_top(lat, nan=True):
    """A cloud top that depends on the event (events carry lat = index): -inf for every third
    event, NaN for every eleventh, otherwise 0.5 .. 6.5 km. Per-event state parked on a shared
    object shows up as a wrong cloud top for some other event."""
    i = int(round(float(lat)))
    if nan and i % 11 == 5:
        return np.nan  # a map cell without data: every comparison with it is False
    return -np.inf if i % 3 == 0 else 0.5 + (i * 7 % 13) * 0.5


class VaryingCloud(FailAt):
    def __init__(self, nan=None):
        super().__init__(None, top="varying", nan=nan)


class AdversarialExecutor(cf.Executor):
    def __init__(self, seed, max_concurrency=None, quiet_s=0.01):
        self._rng = np.random.default_rng(seed)
        self._max_workers = 10_000  # dask reads this: submit every ready task at once
        self._lock = threading.Lock()
        self._pending = []
        self._quiet = quiet_s
        self._last_submit = 0.0
        self._stop = False
        self.rounds = []  # per round: dict(n, start_order, release_order, concurrency)
        self._conc = max_concurrency
        self._thread = threading.Thread(target=self._loop, daemon=True)
        self._thread.start()

    def submit(self, fn, *args, **kwargs):
        f = cf.Future()
        with self._lock:
            self._pending.append((f, fn, args, kwargs))
            self._last_submit = time.monotonic()
        return f

    def _loop(self):
        while not self._stop:
            time.sleep(0.002)
            with self._lock:
                if not self._pending or time.monotonic() - self._last_submit < self._quiet:
                    continue
                batch, self._pending = self._pending, []
            self._run_round(batch)

    def _run_round(self, batch):
        n = len(batch)
        start = self._rng.permutation(n)
        release = self._rng.permutation(n)
        conc = int(self._conc or self._rng.integers(1, min(n, 8) + 1))
        results = [None] * n

        def work(i):
            f, fn, a, k = batch[i]
            try:
                results[i] = ("ok", fn(*a, **k))
            except BaseException as e:  # noqa: BLE001
                results[i] = ("err", e)

        with cf.ThreadPoolExecutor(max_workers=conc) as ex:
            list(ex.map(work, [int(i) for i in start]))
        self.rounds.append({"n": n, "start_order": [int(i) for i in start], "release_order": [int(i) for i in release], "concurrency": conc})
        for i in release:
            f = batch[int(i)][0]
            kind, val = results[int(i)]
            if kind == "ok":
                f.set_result(val)
            else:
                f.set_exception(val)

    def shutdown(self, wait=True, **kw):
        self._stop = True

    def schedule_id(self):
        big = max(self.rounds, key=lambda r: r["n"]) if self.rounds else None
        return None if big is None else (tuple(big["start_order"]), tuple(big["release_order"]), big["concurrency"])


@contextlib.contextmanager
def forced_partition_size(k):
    from nuspacesim.simulation.eas_optical import cphotang

    real = cphotang.db

    class Proxy:
        def __getattr__(self, name):
            return getattr(real, name)

        @staticmethod
        def from_sequence(seq, partition_size=None, npartitions=None):
            return real.from_sequence(seq, partition_size=k)

    cphotang.db = Proxy()
    try:
        yield
    finally:
        cphotang.db = real


class YieldInjector:
    """sleep(1e-6) at a seed-chosen fraction of LINE events inside the kernel's methods."""

    def __init__(self, seed, cls, p=0.05, focus_lines=None):
        self.rng = np.random.default_rng(seed)
        self.p = p
        self.cls = cls
        self.lock = threading.Lock()
        self.last_thread = None
        self.switch_points = set()
        self.switches = 0
        self.events = 0
        self.focus = set(focus_lines or ())
        self.tool = sys.monitoring.PROFILER_ID
        self.codes = [v.__code__ for v in vars(cls).values() if callable(v) and hasattr(v, "__code__")]

    def _cb(self, code, line):
        tid = threading.get_ident()
        with self.lock:
            self.events += 1
            if self.last_thread is not None and self.last_thread != tid:
                self.switches += 1
                self.switch_points.add((code.co_name, line))
            self.last_thread = tid
            go = self.rng.random() < (0.5 if (code.co_name, line) in self.focus else self.p)
        if go:
            time.sleep(1e-6)

    def __enter__(self):
        m = sys.monitoring
        m.use_tool_id(self.tool, "nssmon-yield")
        m.register_callback(self.tool, m.events.LINE, self._cb)
        for c in self.codes:
            m.set_local_events(self.tool, c, m.events.LINE)
        return self

    def __exit__(self, *a):
        m = sys.monitoring
        for c in self.codes:
            m.set_local_events(self.tool, c, 0)
        m.register_callback(self.tool, m.events.LINE, None)
        m.free_tool_id(self.tool)


def state_digest(obj):
    h = hashlib.sha256()
    for k in sorted(vars(obj)):
        v = vars(obj)[k]
        h.update(k.encode())
        if isinstance(v, np.ndarray):
            h.update(v.tobytes())
            h.update(str(v.dtype).encode())
        else:
            h.update(repr(v).encode())
    return h.hexdigest()


_WRITES = []
_WLOCK = threading.Lock()


def _recording_setattr(self, name, value):
    with _WLOCK:
        _WRITES.append((name, threading.get_ident(), sys._getframe(1).f_code.co_name, sys._getframe(1).f_lineno))
    object.__setattr__(self, name, value)


_SUBCLASSES = {}


@contextlib.contextmanager
def frozen(obj):
    """Read-only arrays + attribute-write recorder for the duration of a batch.
    Yields a dict that receives 'writes' (list) and 'digest_equal' (bool) on exit."""
    cls = type(obj)
    sub = _SUBCLASSES.get(cls)
    if sub is None:
        sub = type("Frozen" + cls.__name__, (cls,), {"__setattr__": _recording_setattr})
        _SUBCLASSES[cls] = sub
    arrays = [v for v in vars(obj).values() if isinstance(v, np.ndarray)]
    flags = [a.flags.writeable for a in arrays]
    before = state_digest(obj)
    out = {}
    with _WLOCK:
        _WRITES.clear()
    for a in arrays:
        a.flags.writeable = False
    object.__setattr__(obj, "__class__", sub)
    try:
        yield out
    finally:
        object.__setattr__(obj, "__class__", cls)
        for a, fl in zip(arrays, flags):
            a.flags.writeable = fl
        with _WLOCK:
            out["writes"] = list(_WRITES)
            _WRITES.clear()
        out["digest_equal"] = state_digest(obj) == before
