"""Injects the zsteps function compiled from the *working tree's* zsteps.cpp (through the
pybind11 shim, see native/) in place of the prebuilt, git-ignored extension, which cannot be
rebuilt in this sandbox (pybind11 is not installed). Imported at the top of nssmon.__main__ so
that spawned dask worker processes (which re-import the main module) get it too.

pybind11 always dispatched the Python call to the double overload (float64 arrays out);
the C wrapper does the same.
"""
import ctypes
import os

import numpy as np

from .core import BUILD

_lib = None
so_zsteps = None  # the stale prebuilt extension's function, kept for the observation below
CAP0 = 4096


def _load():
    global _lib
    if _lib is None:
        p = os.path.join(BUILD, "libzsteps_src.so")
        _lib = ctypes.CDLL(p)
        dp = ctypes.POINTER(ctypes.c_double)
        _lib.zsteps_f64.restype = ctypes.c_long
        _lib.zsteps_f64.argtypes = [ctypes.c_double] * 7 + [dp, dp, ctypes.c_long]
        fp = ctypes.POINTER(ctypes.c_float)
        _lib.zsteps_f32.restype = ctypes.c_long
        _lib.zsteps_f32.argtypes = [ctypes.c_float] * 7 + [fp, fp, ctypes.c_long]
    return _lib


def zsteps(z, sinThetView, RadE, zMaxZ, zmax, dL, pi):
    lib = _load()
    cap = CAP0
    args = [float(z), float(sinThetView), float(RadE), float(zMaxZ), float(zmax), float(dL), float(pi)]
    while True:
        a = np.empty(cap, dtype=np.float64)
        b = np.empty(cap, dtype=np.float64)
        n = lib.zsteps_f64(*args, a.ctypes.data_as(ctypes.POINTER(ctypes.c_double)), b.ctypes.data_as(ctypes.POINTER(ctypes.c_double)), cap)
        if n <= cap:
            return a[:n].copy(), b[:n].copy()
        cap = int(n)


def zsteps_f32(z, sinThetView, RadE, zMaxZ, zmax, dL, pi):
    lib = _load()
    cap = CAP0
    args = [float(np.float32(x)) for x in (z, sinThetView, RadE, zMaxZ, zmax, dL, pi)]
    while True:
        a = np.empty(cap, dtype=np.float32)
        b = np.empty(cap, dtype=np.float32)
        n = lib.zsteps_f32(*args, a.ctypes.data_as(ctypes.POINTER(ctypes.c_float)), b.ctypes.data_as(ctypes.POINTER(ctypes.c_float)), cap)
        if n <= cap:
            return a[:n].copy(), b[:n].copy()
        cap = int(n)


def install():
    """Replace cphotang.cppzsteps by the source-built function. Idempotent."""
    global so_zsteps
    from nuspacesim.simulation.eas_optical import cphotang

    cur = getattr(cphotang, "cppzsteps", None)
    if cur is zsteps:
        return True
    so_zsteps = cur
    cphotang.cppzsteps = zsteps
    return True


def so_matches_source(n=64, seed=0):
    """Observation only: does the stale prebuilt .so agree bit for bit with the source build?"""
    if so_zsteps is None:
        return None
    rng = np.random.default_rng(seed)
    for _ in range(n):
        z = float(rng.uniform(0, 20))
        s = float(np.float32(np.sin(np.arcsin(6378.14 / (6378.14 + 525.0) * np.cos(rng.uniform(0.0175, 0.73))))))
        a = so_zsteps(z, np.float32(s), np.float32(6378.14), np.float32(65.0), np.float32(525.0), np.float32(0.1), np.float32(3.1415926))
        b = zsteps(z, np.float32(s), np.float32(6378.14), np.float32(65.0), np.float32(525.0), np.float32(0.1), np.float32(3.1415926))
        if not (np.array_equal(a[0], b[0]) and np.array_equal(a[1], b[1]) and a[0].dtype == b[0].dtype):
            return False
    return True


if os.environ.get("NSSMON_INJECT_ZSTEPS", "1") != "0":
    try:
        install()
    except Exception as _e:  # reported by the checks that need it
        INSTALL_ERROR = repr(_e)
    else:
        INSTALL_ERROR = None


# ---- pre-flight: never load native code in-process that the sanitizers object to ---------------
_PREFLIGHT = None


def boundary_grid_lines():
    import math

    f32 = lambda x: float(np.float32(x)).hex()
    lines = []
    for bdeg in (0.0, 1.0, 10.0, 42.0):
        stv = math.sin(math.asin(6378.14 / (6378.14 + 525.0) * math.cos(math.radians(max(bdeg, 1.0)))))
        for alt in (0.0, 1e-300, 3.7, 11.0, 20.0, 64.99, 65.0):
            lines.append(" ".join([float(alt).hex(), f32(stv), f32(6378.14), f32(65.0), f32(525.0), f32(0.1), f32(3.1415926)]))
            lines.append(" ".join([float(alt).hex(), float(stv).hex(), float(6378.14).hex(), float(65.0).hex(), float(525.0).hex(), float(0.1).hex(), float(3.1415926).hex()]))
    return lines


def run_sanitized(lines, timeout=600):
    """Returns dict(exit, out, plain_out, stderr, report: bool) for the ASan+UBSan driver."""
    import subprocess

    san, plain = os.path.join(BUILD, "zsteps_san"), os.path.join(BUILD, "zsteps_plain")
    if not (os.path.exists(san) and os.path.exists(plain)):
        return {"missing": True}
    inp = ("\n".join(lines) + "\n").encode()
    env = dict(os.environ, ASAN_OPTIONS="halt_on_error=1:abort_on_error=1:detect_leaks=1", UBSAN_OPTIONS="halt_on_error=1:print_stacktrace=1")
    try:
        rs = subprocess.run([san], input=inp, capture_output=True, timeout=timeout, env=env)
        rp = subprocess.run([plain], input=inp, capture_output=True, timeout=timeout)
    except subprocess.TimeoutExpired:
        return {"timeout": True}
    err = rs.stderr.decode(errors="replace")
    report = rs.returncode != 0 or "ERROR" in err or "runtime error" in err
    return {"exit": rs.returncode, "out": rs.stdout.decode().strip(), "plain_out": rp.stdout.decode().strip(), "plain_exit": rp.returncode, "stderr": err, "report": report}


def preflight():
    """Sanitized run of the working tree's zsteps.cpp on the boundary grid, once per process tree."""
    global _PREFLIGHT
    if _PREFLIGHT is None:
        _PREFLIGHT = run_sanitized(boundary_grid_lines(), timeout=120)
    return _PREFLIGHT


def require_safe():
    """For checks that run the kernel in-process but do not own C06."""
    from .core import Inconclusive

    r = preflight()
    if r.get("missing") or r.get("timeout"):
        raise Inconclusive("zsteps.cpp sanitizer pre-flight unavailable (missing build or timeout)")
    if r["report"] or r["out"] != r["plain_out"]:
        raise Inconclusive("zsteps.cpp: the sanitizer pre-flight reports a defect in the stepping code (decided by check C06); native code not loaded in-process")
