"""pytest plugin (-p nssmon.pytest_probes): runs the repository's own test-suite as a third
workload with monitors attached to the functions it exercises. Monitors *record*; they never
raise into the tests. Results go to the JSON file named by NSSMON_PROBE_OUT.

  C19  both copies of the pressure functions: finite inputs in [0, 120] km / [P(120), 101325] Pa
       round-trip within the property's bounds and the other copy agrees bit for bit
  C18  vec_1d_interp on non-decreasing rows with queries strictly inside the row range agrees
       with the plateau-aware bracket oracle
"""
import json
import os

import numpy as np

REC = {"counts": {}, "violations": []}


def _count(k, n=1):
    REC["counts"][k] = REC["counts"].get(k, 0) + int(n)


def _viol(prop, key, what):
    if len(REC["violations"]) < 50:
        REC["violations"].append({"property": prop, "key": key, "what": what})


def _install():
    from nuspacesim.simulation.atmosphere import pressure as A
    from nuspacesim.simulation.eas_optical import atmospheric_models as B
    from nuspacesim.utils import cdf as CDF
    from nuspacesim.utils import interp as I

    from .oracles import atm_ref, tables_ref

    p_top = atm_ref.pressure(120.0)
    pairs = [(A, B), (B, A)]
    for mod, other in pairs:
        o_pz, o_zp = mod.us_std_atm_pressure_from_altitude, mod.us_std_atm_altitude_from_pressure
        t_pz, t_zp = other.us_std_atm_pressure_from_altitude, other.us_std_atm_altitude_from_pressure
        t_pz, t_zp = getattr(t_pz, "__wrapped__", t_pz), getattr(t_zp, "__wrapped__", t_zp)

        def pz(z, _o=o_pz, _t=t_pz, _inv=o_zp, _name=mod.__name__):
            r = _o(z)
            try:
                zz = np.atleast_1d(np.asarray(z, dtype=np.float64))
                rr = np.atleast_1d(np.asarray(r, dtype=np.float64))
                m = np.isfinite(zz) & (zz >= 0) & (zz <= 120)
                if m.any() and zz.shape == rr.shape and np.asarray(z).dtype.kind == "f":
                    _count("C19:pressure_from_altitude", int(m.sum()))
                    back = np.atleast_1d(np.asarray(_inv(rr[m]), dtype=np.float64))
                    if not (np.all(rr[m] > 0) and np.all(np.abs(back - zz[m]) <= 1e-6)):
                        _viol("C19", "roundtrip-z", f"{_name}: z(P(z)) off by {np.nanmax(np.abs(back - zz[m])):.3e} km during the repository tests")
                    if np.atleast_1d(np.asarray(_t(z))).tobytes() != np.atleast_1d(np.asarray(r)).tobytes():
                        _viol("C19", "copies-differ", f"{_name}: the other copy differs on an input used by the repository tests")
            except Exception as e:  # monitors never disturb the tests
                _count("monitor-errors")
                REC.setdefault("monitor_errors", []).append(repr(e)[:200])
            return r

        def zp(P, _o=o_zp, _t=t_zp, _inv=o_pz, _name=mod.__name__):
            r = _o(P)
            try:
                pp = np.atleast_1d(np.asarray(P, dtype=np.float64))
                rr = np.atleast_1d(np.asarray(r, dtype=np.float64))
                m = np.isfinite(pp) & (pp >= p_top) & (pp <= 101325.0)
                if m.any() and pp.shape == rr.shape and np.asarray(P).dtype.kind == "f":
                    _count("C19:altitude_from_pressure", int(m.sum()))
                    back = np.atleast_1d(np.asarray(_inv(rr[m]), dtype=np.float64))
                    if not np.all(np.abs(back - pp[m]) <= 1e-6 * pp[m]):
                        _viol("C19", "roundtrip-p", f"{_name}: P(z(P)) off by {np.nanmax(np.abs(back - pp[m]) / pp[m]):.3e} during the repository tests")
                    if np.atleast_1d(np.asarray(_t(P))).tobytes() != np.atleast_1d(np.asarray(r)).tobytes():
                        _viol("C19", "copies-differ", f"{_name}: the other copy differs on an input used by the repository tests")
            except Exception as e:
                _count("monitor-errors")
                REC.setdefault("monitor_errors", []).append(repr(e)[:200])
            return r

        pz.__wrapped__, zp.__wrapped__ = o_pz, o_zp
        mod.us_std_atm_pressure_from_altitude, mod.us_std_atm_altitude_from_pressure = pz, zp

    o_vec = I.vec_1d_interp

    def vec(xs, ys, x):
        r = o_vec(xs, ys, x)
        try:
            xs_, ys_, x_ = np.asarray(xs, dtype=np.float64), np.asarray(ys, dtype=np.float64), np.asarray(x, dtype=np.float64)
            if xs_.ndim == 2 and x_.ndim == 1 and xs_.shape[0] == x_.shape[0]:
                ok = np.all(np.diff(xs_, axis=1) >= 0, axis=1) & (x_ > xs_[:, 0] + 2e-15) & (x_ < xs_[:, -1] - 2e-15)
                if ok.all() and np.shape(r) == x_.shape:
                    _count("C18:vec_1d_interp", int(ok.sum()))
                    z, zlo, zhi = tables_ref.invert_rows(xs_, ys_, x_)
                    tol = 1e-12 * np.maximum(np.abs(zhi), 1e-300) + 1e-15
                    bad = ~((np.asarray(r) >= zlo - tol) & (np.asarray(r) <= zhi + tol))
                    if bad.any():
                        _viol("C18", "row-interp", f"vec_1d_interp disagrees with piecewise-linear interpolation on {int(bad.sum())} of {bad.size} rows during the repository tests")
        except Exception as e:
            _count("monitor-errors")
            REC.setdefault("monitor_errors", []).append(repr(e)[:200])
        return r

    vec.__wrapped__ = o_vec
    I.vec_1d_interp = vec
    CDF.vec_1d_interp = vec


try:
    _install()
    REC["installed"] = True
except Exception as _e:  # pragma: no cover
    REC["installed"] = False
    REC["install_error"] = repr(_e)


def pytest_sessionfinish(session, exitstatus):
    REC["pytest_exit"] = int(exitstatus)
    out = os.environ.get("NSSMON_PROBE_OUT")
    if out:
        with open(out, "w") as f:
            json.dump(REC, f)
