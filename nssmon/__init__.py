"""nssmon — runtime monitors for nuSpaceSim (see /verif/DESIGN.md)."""
