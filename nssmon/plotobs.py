"""Diagnostic plots are observers: a stage called with plot=<its registered plots> (non-interactive
backend) returns bit for bit what it returns without, and leaves its input arrays alone."""
import contextlib
import io

import numpy as np


def _eq(a, b):
    a, b = np.asarray(a), np.asarray(b)
    return a.shape == b.shape and a.dtype == b.dtype and a.tobytes() == b.tobytes()


def all_plot_names():
    from nuspacesim.utils.plot_function_registry import registry

    return sorted(registry)


def check_stage(ctx, name, make, call, arrs, key_out, key_in="inputs-modified", monitor="plots", seed=4242, names=None):
    """make() -> fresh stage object; call(obj, kw, *arrays) -> outputs; arrs: tuple of input arrays."""
    import dask
    import matplotlib.pyplot as plt

    names = names or all_plot_names()
    outs = []
    for kw in ({}, {"plot": names}):
        a_ = [np.array(x, copy=True) for x in arrs]
        a0 = [x.copy() for x in a_]
        np.random.seed(seed)
        try:
            with dask.config.set(scheduler="synchronous"), contextlib.redirect_stdout(io.StringIO()):
                r = call(make(), kw, *a_)
        except Exception as e:
            ctx.exception("raises", f"{name}: raised with {'the diagnostic plots requested' if kw else 'no plot'}", e, {"stage": name, "plots": bool(kw)})
            return False
        finally:
            plt.close("all")
        if any(x.tobytes() != y.tobytes() for x, y in zip(a_, a0)):
            j = [i for i, (x, y) in enumerate(zip(a_, a0)) if x.tobytes() != y.tobytes()][0]
            ctx.violation(key_in, f"{name}: input array #{j} was modified by the call{' with the diagnostic plots requested' if kw else ''}", {"stage": name, "argument": j, "plots": bool(kw)})
        outs.append(tuple(np.array(v, copy=True) for v in (r if isinstance(r, tuple) else (r,))))
    ctx.count(monitor, 1)
    ctx.distinct.add((monitor, name))
    bad = [i for i, (p_, q_) in enumerate(zip(outs[0], outs[1])) if not _eq(p_, q_)]
    if bad or len(outs[0]) != len(outs[1]):
        k = bad[0] if bad else 0
        d = ""
        if bad:
            a, b = np.asarray(outs[1][k]), np.asarray(outs[0][k])
            if a.shape == b.shape and a.size:
                nz = np.flatnonzero(~((a == b) | ((a != a) & (b != b))).reshape(a.shape[0], -1).all(axis=1)) if a.ndim else np.zeros(1, int)
                i = int(nz[0]) if nz.size else 0
                d = f": {nz.size} of {a.shape[0] if a.ndim else 1} events differ, first at event {i}: {np.ravel(a[i] if a.ndim else a)[:2].tolist()} vs {np.ravel(b[i] if b.ndim else b)[:2].tolist()}"
            else:
                d = f": shape {a.shape} vs {b.shape}"
        ctx.violation(key_out, f"{name}: with the diagnostic plots {names} requested output #{k} differs from the call without plots{d}", {"stage": name, "output": k, "plots": names})
        return False
    return True
