"""C16 — a results file is self-describing and loss-free.

  columns     Table.write(format='fits') + Table.read: every column bit for bit
              (endianness-normalised; Time columns via jd1/jd2)
  header      every header value the table carried is read back unchanged
  complete    every leaf of the flattened configuration is present in the file's header
  reconstruct config_from_fits: every field it actually reads (observed by wrapping
              fits.Header.__getitem__/__contains__, not assumed) agrees with the original, for
              both spectrum types and all cloud variants
Known finding (open, keyed by mechanism `fits-header:float-text-exceeds-card`): astropy cuts a
float's text to 20 characters and the card at column 80. The classifier accepts a float
difference only if the read-back value is exactly what that cutting rule predicts from the
original's text, and a write failure only if the rule predicts a card cut inside the exponent;
anything else is a VIOLATION.
"""
import math
import os
import shutil
import tempfile

import numpy as np

from .. import fullrun

LEVEL = "exploration"
KF = "fits-header:float-text-exceeds-card"
ANGLE_FIELDS = {"latitude", "longitude", "sun_alt_cut", "moon_alt_cut", "moon_min_phase_angle_cut", "source_RA", "source_DEC", "max_cherenkov_angle", "max_azimuth_angle", "angle_from_limb"}


def predict_float_card(keyword, v, comment=None):
    """Text astropy will put in the card for float v, following its cutting rule. Returns
    (text, fits): fits=False when nothing had to be cut."""
    s = str(float(v)).replace("e", "E")
    full = s
    if len(s) > 20:
        i = s.find("E")
        s = s[:20] if i < 0 else s[: 20 - (len(s) - i)] + s[i:]
    hier = len(keyword) > 8 or " " in keyword
    if hier:
        kw, val = f"HIERARCH {keyword} ", s
    else:
        kw, val = f"{keyword:8}", f"{s:>20}"
    com = f" / {comment}" if comment else ""
    out = f"{kw}= {val}{com}"
    if hier and len(kw) + 2 + len(val) == 81:
        out = kw[:-1] + "= " + val + com
        kw = kw[:-1]
    out = out[:80]
    text = out[len(kw) + 2 :]
    if " /" in text:
        text = text.split(" /")[0]
    text = text.strip()
    return text, text != full


def parse_fits_float(text):
    try:
        if not text or text[-1] in "E+-." and text[-1] != "." or text in ("-", "+"):
            if text and text[-1] == ".":
                return float(text)
            return None
        return float(text.replace("D", "E"))
    except ValueError:
        return None


def flatten(d, prefix="Config"):
    for k, v in d.items():
        if isinstance(v, dict):
            yield from flatten(v, f"{prefix} {k}")
        else:
            yield f"{prefix} {k}", v


SHORT = [0.0, 0.25, 7.5, 1e-3, 10.0, 0.5, 2.0, 1e5, 3.0e-7, 42.125]
LONG = [0.30000000000000004, 1 / 3, 6.944304344339204e-05, 1.2345678901234567e-05, 0.1234567890123456, 123456.78901234567, 2.220446049250313e-16, 9.999999999999999e22, 1.0000000000000002, 1.7976931348623157e308, 5e-324, 1.2345678901234567e-300]
STRS = ["NuSpaceSim", "x", "two words", "it's", "quote\"d", "a=b /c", "  lead", "UPPER lower", "0123456789012345", "#!@$%^&*()[]{}"]


KF_STR = "fits-header:string-card-grammar"
HOSTILE_STRS = ["a'/b", "x' / y", "'/", "'' /", "it's a/b", "O'Neil / run 3", "x' y", "end&", "a'' b", "q'", "run 7 (Ted's) /tmp/out", "Ted's'/x",
                "a long title that does not fit on one 80-column card and therefore needs CONTINUE cards in the header",
                "a long title that does not fit on one 80-column card, needs CONTINUE cards and ends with an ampersand &",
                "long, with a quote' / slash pair somewhere in the middle of a text that needs more than one card to be stored"]
ALPHABETS = ["abcdefgh'/ &", "abc def", "abc'", "ab/ ", "ab&", "abcdefghijklmnopqrstuvwxyz0123456789 _-.,:;()[]{}<>=+*#@!?%$^~|\\\"`'/&"]


def hostile_string(rng, i):
    if i < len(HOSTILE_STRS):
        return HOSTILE_STRS[i]
    L = int(rng.choice([1, 2, 5, 12, 30, 50, 60, 66, 67, 68, 69, 70, 75, 100, 140]))
    al = ALPHABETS[int(rng.integers(0, len(ALPHABETS)))]
    s = "".join(al[int(j)] for j in rng.integers(0, len(al), L)).strip()
    return s or "x"


def string_card_rule(keyword_as_written, s):
    """astropy's card grammar for a string value (observed, see DESIGN D27): returns
    (mechanism or None, exact prediction or None). A quote followed by optional blanks and a
    slash ends the value on read-back; a value that needs CONTINUE cards loses a trailing '&'."""
    import re

    q = s.replace("'", "''")
    img = f"{keyword_as_written} = '{q}'" if keyword_as_written.upper().startswith("HIERARCH ") else f"{keyword_as_written:8s}= '{q}'"
    long = len(img) > 80
    m = re.search(r"'(?= */)", s)
    if m:
        return "quote-slash", (None if long else s[: m.end()])
    if long and s.endswith("&"):
        return "continue-ampersand", None
    return None, s


def gen_config(rng, i, longf):
    from nuspacesim.config import NssConfig, Simulation

    pool = (LONG if longf else SHORT)
    f = lambda: float(rng.choice(pool)) if rng.random() < 0.7 else (float(np.round(rng.uniform(0, 100), 3)) if not longf else float(rng.uniform(0, 1) * 10.0 ** rng.integers(-8, 8)))
    c = NssConfig()
    c.title = STRS[i % len(STRS)]
    c.detector.name = STRS[(i * 3 + 1) % len(STRS)]
    ip = c.detector.initial_position
    ip.altitude = float(rng.choice([33.0, 525.0, 1000.5]))
    ip.latitude, ip.longitude = float(np.radians(rng.choice([0.0, 10.0, -45.5, 89.0]))), float(np.radians(rng.choice([0.0, 120.0, -170.25, 33.0])))
    o = c.detector.optical
    o.enable = bool(i % 2 == 0)
    o.quantum_efficiency, o.photo_electron_threshold = f(), f()
    r = c.detector.radio
    r.enable = bool(i % 3 != 0)
    r.snr_threshold = f()
    r.nantennas = int(rng.choice([1, 10, 0]))
    c.detector.sun_moon.sun_moon_cuts = bool(i % 4 < 2)
    s = c.simulation
    s.mode = ["Diffuse", "Target"][i % 2]
    s.thrown_events = int(rng.choice([0, 1, 100, 10**7]))
    s.ionosphere.enable = bool(i % 5 != 0)
    s.ionosphere.total_electron_content, s.ionosphere.total_electron_error = f(), f()
    s.tau_shower.etau_frac = f()
    s.tau_shower.table_version = str(rng.choice(["1", "2", "3"]))
    if i % 2:
        s.spectrum = Simulation.PowerSpectrum(index=f(), lower_bound=6.0 + (f() % 3), upper_bound=10.0 + (f() % 2))
    else:
        s.spectrum = Simulation.MonoSpectrum(log_nu_energy=6.0 + (f() % 6))
    k = i % 4
    if k == 1:
        s.cloud_model = Simulation.MonoCloud(altitude=f())
    elif k == 2:
        s.cloud_model = Simulation.PressureMapCloud(month=int(rng.integers(1, 13)), version=0)
    elif k == 3:
        s.cloud_model = Simulation.PressureMapCloud(month=int(rng.integers(1, 13)), version="0")
    s.target.source_obst = f()
    s.target.source_RA, s.target.source_DEC = float(np.radians(rng.choice([0.0, 22.0, 310.5]))), float(np.radians(rng.choice([0.0, -45.0, 63.25])))
    c.detector.sun_moon.moon_alt_cut = float(np.radians(rng.choice([0.0, -20.0, 15.0])))
    return c


def col_bytes(c):
    from astropy.time import Time

    if isinstance(c, Time):
        return np.asarray(c.jd1).tobytes() + np.asarray(c.jd2).tobytes(), ("Time", np.asarray(c.jd1).shape)
    a = np.asarray(c)
    return a.astype(a.dtype.newbyteorder("=")).tobytes(), (a.dtype.kind, a.dtype.itemsize, a.shape)


def get_attr_path(cfg, parts):
    o = cfg
    for p in parts:
        o = getattr(o, p)
    return o


RECON_UNION = set()


def judge_table(ctx, tab, cfg, path, label, rng):
    """Write, read back, compare; returns nothing. cfg may be None (no reconstruction)."""
    from astropy.io import fits
    from astropy.io.fits.verify import VerifyError
    from astropy.table import Table
    from nuspacesim.config import config_from_fits

    wit = {"table": label}
    meta = {k: (v[0] if isinstance(v, tuple) else v) for k, v in tab.meta.items()}
    comments = {k: (v[1] if isinstance(v, tuple) else None) for k, v in tab.meta.items()}
    # what the cutting rule predicts for every float in the header
    pred = {}
    for k, v in meta.items():
        if isinstance(v, (float, np.floating)) and not isinstance(v, bool):
            kw = k[9:] if k.upper().startswith("HIERARCH ") else k
            text, cut = predict_float_card(kw, v, comments[k])
            pred[k] = (text, cut, parse_fits_float(text))
    ctx.count("columns", len(tab.colnames))
    try:
        if os.path.exists(path):
            os.remove(path)
        tab.write(path, format="fits", overwrite=True)
    except Exception as e:
        unwritable = [k for k, (t, cut, val) in pred.items() if cut and val is None]
        if isinstance(e, (VerifyError, ValueError)) and unwritable and any(k[9:].split()[-1][:12] in str(e) or "invalid value string" in str(e) for k in unwritable):
            ctx.violation(KF, f"{label}: Table.write fails ({type(e).__name__}: {str(e)[:120]}) because the float text of {unwritable[0]!r} = {meta[unwritable[0]]!r} is cut inside its exponent by the 80-column card", dict(wit, keyword=unwritable[0], mode="write-fails"))
        else:
            ctx.exception("write-raises", f"{label}: writing the results table to FITS raised", e, wit)
        return
    try:
        back = Table.read(path, format="fits")
    except Exception as e:
        ctx.exception("read-raises", f"{label}: reading the results file back raised", e, wit)
        return
    # ---- columns
    if list(back.colnames) != list(tab.colnames):
        ctx.violation("columns", f"{label}: column names read back as {back.colnames} (written {tab.colnames})", wit)
    else:
        from astropy.time import Time as _T

        for name in tab.colnames:
            if isinstance(tab[name], _T) and not isinstance(back[name], _T):
                # the default reader returns a Time column as its two stored doubles (jd1, jd2);
                # the bits are what has to be preserved
                raw = np.asarray(back[name], dtype=np.float64).reshape(-1, 2)
                if raw[:, 0].tobytes() == np.asarray(tab[name].jd1, dtype=np.float64).tobytes() and raw[:, 1].tobytes() == np.asarray(tab[name].jd2, dtype=np.float64).tobytes():
                    ctx.obs["time_columns_read_back_as_jd_pairs"] = ctx.obs.get("time_columns_read_back_as_jd_pairs", 0) + 1
                    continue
            if col_bytes(tab[name]) != col_bytes(back[name]):
                a, b = tab[name], back[name]
                ctx.violation("columns", f"{label}: column {name!r} ({col_bytes(tab[name])[1]}) is not preserved bit for bit (read back as {col_bytes(back[name])[1]})", dict(wit, column=name))
                break
    # ---- header values
    bm = {k.upper(): v for k, v in back.meta.items()}
    with fits.open(path) as hd:
        hdr = hd[1].header
        hkeys = {k.upper(): hdr[k] for k in hdr.keys() if k}
    d10 = set()
    dstr = set()
    for k, v in meta.items():
        kw = (k[9:] if k.upper().startswith("HIERARCH ") else k).upper()
        ctx.count("header")
        if kw not in hkeys:
            ctx.violation("header", f"{label}: header keyword {kw!r} (value {v!r}) is missing from the file", dict(wit, keyword=kw))
            continue
        r = hkeys[kw]
        if isinstance(v, (float, np.floating)) and not isinstance(v, bool):
            if isinstance(r, (float, int)) and not isinstance(r, bool) and float(r) == float(v):
                continue
            text, cut, val = pred[k]
            if cut and val is not None and isinstance(r, (float, int)) and float(r) == val:
                d10.add(kw)
                ctx.violation(KF, f"{label}: {kw} = {v!r} is read back as {r!r} (card text cut to {text!r})", dict(wit, keyword=kw, mode="value-cut"))
            else:
                ctx.violation("header", f"{label}: header value {kw} = {v!r} is read back as {r!r}; the card-cutting rule predicts {val!r} (text {text!r})", dict(wit, keyword=kw))
        elif isinstance(v, (bool, np.bool_)):
            if not (isinstance(r, (bool, np.bool_)) and bool(r) == bool(v)):
                ctx.violation("header", f"{label}: header value {kw} = {v!r} is read back as {r!r}", dict(wit, keyword=kw))
        elif isinstance(v, (int, np.integer)):
            if not (isinstance(r, (int, np.integer)) and not isinstance(r, bool) and int(r) == int(v)):
                ctx.violation("header", f"{label}: header value {kw} = {v!r} is read back as {r!r}", dict(wit, keyword=kw))
        elif v is None:
            # an absent Optional section is written as a card with an undefined value
            if not (r is None or isinstance(r, fits.card.Undefined)):
                ctx.violation("header", f"{label}: header value {kw} = None is read back as {r!r}", dict(wit, keyword=kw))
        else:
            if not (isinstance(r, str) and r == str(v)):
                mech, pred_s = string_card_rule(k, str(v))
                if isinstance(r, str) and mech and (pred_s is None or r == pred_s):
                    dstr.add(kw)
                    ctx.violation(KF_STR, f"{label}: string {kw} = {v!r} is read back as {r!r} ({mech})", dict(wit, keyword=kw, mode=mech))
                else:
                    ctx.violation("header", f"{label}: header value {kw} = {v!r} is read back as {r!r}", dict(wit, keyword=kw))
    if cfg is None:
        return
    # ---- completeness of the flattened configuration
    for key, v in flatten(cfg.model_dump()):
        ctx.count("complete")
        if v is None:
            continue
        if key.upper() not in hkeys:
            ctx.violation("complete", f"{label}: configuration entry {key!r} = {v!r} is not in the file's header", dict(wit, keyword=key))
            continue
        r = hkeys[key.upper()]
        if isinstance(v, float):
            text, cut, val = predict_float_card(key, v) + (None,)
            val = parse_fits_float(text)
            okv = (isinstance(r, (int, float)) and not isinstance(r, bool) and (float(r) == v or (cut and val is not None and float(r) == val)))
        elif isinstance(v, bool):
            okv = isinstance(r, (bool, np.bool_)) and bool(r) == v
        elif isinstance(v, (int, np.integer)):
            okv = isinstance(r, (int, np.integer)) and not isinstance(r, bool) and int(r) == v
        else:
            okv = isinstance(r, str) and (r == str(v) or key.upper() in dstr)  # dstr: reported above as the open string finding
        if not okv:
            ctx.violation("complete", f"{label}: the file's header says {key!r} = {r!r} but the configuration that produced the table has {v!r}", dict(wit, keyword=key))
            continue
        # unit-bearing fields are stored as text ("30.0 deg"): parse the header text with astropy and
        # compare with the configuration's own canonical value (independent of the serialisers)
        leaf = key.split(" ")[-1]
        canon = "rad" if leaf in ANGLE_FIELDS else {"altitude": "km", "telescope_effective_area": "m2", "low_frequency": "MHz", "high_frequency": "MHz", "gain": "dB"}.get(leaf)
        if canon and isinstance(r, str):
            try:
                import astropy.units as u_

                attr = get_attr_path(cfg, key.split(" ")[1:])
                if isinstance(attr, (int, float)) and not isinstance(attr, bool):
                    val_ = u_.Quantity(r).to(u_.Unit(canon)).value
                    ctx.count("complete-units")
                    if not (val_ == attr or abs(val_ - attr) <= 4 * 2.0**-52 * abs(attr)):
                        ctx.violation("complete", f"{label}: the header says {key!r} = {r!r}, i.e. {val_!r} {canon}; the run used {attr!r} {canon}", dict(wit, keyword=key))
            except Exception as e:
                ctx.violation("complete", f"{label}: header text {key!r} = {r!r} is not a quantity convertible to {canon} ({type(e).__name__})", dict(wit, keyword=key))
    # ---- reconstruction, on the fields the reader actually fills (observed: the keyword arguments
    #      it hands to NssConfig, captured by wrapping the name in the config module)
    import nuspacesim.config as cm

    captured = {}
    real_cls = cm.NssConfig

    def spy_cls(**kw):
        captured.update(kw)
        return real_cls(**kw)

    cm.NssConfig = spy_cls
    try:
        try:
            c2 = cm.config_from_fits(path)
        finally:
            cm.NssConfig = real_cls
    except Exception as e:
        ctx.exception("reconstruct", f"{label}: config_from_fits raised (spectrum {cfg.simulation.spectrum.id}, cloud {cfg.simulation.cloud_model.id})", e, wit)
        return

    def leaves(d, pre=()):
        for k_, v_ in d.items():
            if isinstance(v_, dict):
                yield from leaves(v_, pre + (k_,))
            else:
                yield pre + (k_,)

    paths = sorted(leaves(captured))
    # a reader that drops a field for *this* file (e.g. because its value is falsy) still
    # "reconstructs" that field in general: compare on the union seen over all files so far
    RECON_UNION.update(paths)
    paths = sorted(RECON_UNION)
    ctx.count("reconstruct", len(paths))
    ctx.obs.setdefault("fields_reconstructed", [".".join(p_) for p_ in paths])
    if not paths:
        ctx.inconclusive_because("config_from_fits did not construct NssConfig from keyword arguments (reader refactored): reconstruction not observed")
    for parts in paths:
        try:
            a, b = get_attr_path(cfg, parts), get_attr_path(c2, parts)
        except AttributeError:
            # a section that is None on one side: it must be None on both
            try:
                sa, sb = get_attr_path(cfg, parts[:-1]), get_attr_path(c2, parts[:-1])
            except AttributeError:
                continue
            if (sa is None) != (sb is None):
                ctx.violation("reconstruct", f"{label}: config_from_fits gives {'.'.join(parts[:-1])} = {sb!r}, the run used {sa!r}", dict(wit, field=".".join(parts[:-1])))
            continue
        if a is None or b is None or hasattr(a, "model_dump") or hasattr(b, "model_dump"):
            # the path names a whole Optional section (seen as None in some file): None-ness must agree,
            # its fields are compared through their own paths
            if (a is None) != (b is None):
                ctx.violation("reconstruct", f"{label}: config_from_fits gives {'.'.join(parts)} = {b!r}, the run used {a!r}", dict(wit, field=".".join(parts)))
            continue
        same = a == b or (isinstance(a, float) and isinstance(b, (int, float)) and parts[-1] in ANGLE_FIELDS and abs(a - b) <= 4 * 2.0**-52 * abs(a)) or (isinstance(a, (int, float)) and isinstance(b, (int, float)) and not isinstance(a, bool) and a == b)
        if same:
            continue
        key = "CONFIG " + " ".join(parts).upper()
        if key in dstr and b == hkeys.get(key):
            ctx.violation(KF_STR, f"{label}: reconstructed {'.'.join(parts)} = {b!r} differs from the original {a!r} because the header string was cut on read-back", dict(wit, keyword=key, mode="reconstructed-from-cut-string"))
        elif key in d10:
            ctx.violation(KF, f"{label}: reconstructed {'.'.join(parts)} = {b!r} differs from the original {a!r} because the header float was cut", dict(wit, keyword=key, mode="reconstructed-from-cut-value"))
        else:
            ctx.violation("reconstruct", f"{label}: config_from_fits gives {'.'.join(parts)} = {b!r}, the run used {a!r}", dict(wit, field=".".join(parts)))


def config_from_fits_public(path):
    from nuspacesim.config import config_from_fits

    return config_from_fits(path)


def run(ctx):
    from astropy.table import Table
    from astropy.time import Time
    from nuspacesim import results_table
    from nuspacesim.config import NssConfig

    rng = ctx.subrng("c16")
    work = tempfile.mkdtemp(prefix="c16_", dir=os.path.join(os.environ.get("NSSMON_ROOT", "."), ".work"))
    try:
        # ---- synthetic tables on results_table.init(config)
        n = ctx.pick(120, 2000)
        prev_cfg = None
        RECON_UNION.clear()
        for warm in range(2):  # all-truthy configurations of both spectrum types populate the union
            from nuspacesim.config import Simulation as _S

            cw = NssConfig()
            cw.detector.name, cw.title = "warm", "up"
            if warm:
                cw.simulation.spectrum = _S.PowerSpectrum(index=2.5, lower_bound=7.0, upper_bound=11.0)
            tw = results_table.init(cw)
            tw["beta_rad"] = np.arange(2.0)
            judge_table(ctx, tw, cw, os.path.join(work, "t.fits"), f"all-default configuration ({cw.simulation.spectrum.id})", rng)
        for i in range(n):
            longf = i % 3 == 2
            try:
                cfg = gen_config(rng, i, longf)
                cfg = NssConfig(**cfg.model_dump())
            except Exception:
                ctx.count("generated-invalid")
                continue
            if i % 5 == 4 and prev_cfg is not None:
                # the same configuration *object* as the previous table, mutated in place
                cfg = prev_cfg
                cfg.simulation.thrown_events = int(cfg.simulation.thrown_events + 7)
                cfg.detector.name = "reused " + str(i)
                # scan idiom: `for e in np.arange(...): cfg...log_nu_energy = e` leaves numpy scalars in the
                # configuration (no validation on assignment); they are ordinary finite numbers
                npy = i % 10 == 9
                if hasattr(cfg.simulation.spectrum, "log_nu_energy"):
                    cfg.simulation.spectrum.log_nu_energy = np.arange(9.5, 10.0, 0.25)[1] if npy else 9.5
                else:
                    cfg.simulation.spectrum.index = np.float64(2.75) if npy else 2.75
                if npy:
                    cfg.simulation.thrown_events = np.int64(cfg.simulation.thrown_events)
                    cfg.detector.optical.photo_electron_threshold = np.float64(12.5)
                    ctx.count("numpy-scalars")
            prev_cfg = cfg
            tab = results_table.init(cfg)
            m = int(rng.choice([0, 1, 5, 40]))
            tab["beta_rad"] = rng.uniform(0, 0.7, m)
            tab["path_len"] = rng.uniform(100, 3000, m) * (1 + 2.0**-52)
            tab["tauExitProb"] = 10 ** rng.uniform(-7, 0, m)
            tab["EFields"] = rng.normal(size=(m, 27)) * 1e-6
            if i % 2:
                tab["times"] = Time("2022-06-02T01:00:00", format="isot", scale="utc") + np.arange(m) * 17.123456789 * __import__("astropy").units.s
            if i % 4 == 0:
                tab["small"] = rng.normal(size=m).astype(np.float32)
                tab["count"] = rng.integers(-5, 5, m).astype(np.int64)
            vals = LONG if longf else SHORT
            tab.meta["OMCINT"] = (float(rng.choice(vals)), "Optical MonteCarlo Integral")
            tab.meta["OMCINTGO"] = (float(rng.choice(vals)), "Optical MonteCarlo Integral, GEO Only")
            tab.meta["ONEVPASS"] = (int(rng.integers(0, 1000)), "Optical Number of Passing Events")
            tab.meta["OMCINTUN"] = (float(rng.choice(vals)), "Stat unc of MonteCarlo Integral")
            judge_table(ctx, tab, cfg, os.path.join(work, "t.fits"), f"synthetic table #{i} ({'17-digit' if longf else 'short-text'} floats, spectrum {cfg.simulation.spectrum.id}, cloud {cfg.simulation.cloud_model.id})", rng)
            ctx.distinct.add(("syn", repr(cfg.model_dump())[:3000], m))
            if i < 2:
                ctx.sample({"table": "synthetic", "config": cfg.model_dump(), "rows": m, "columns": tab.colnames})
        # hostile ASCII strings in title / detector name (single-card and CONTINUE-card lengths)
        for i in range(ctx.pick(150, 3000)):
            cfg = NssConfig()
            cfg.title = hostile_string(rng, i)
            cfg.detector.name = hostile_string(rng, i + 7 if i + 7 < len(HOSTILE_STRS) else 10**6)
            if i % 2:
                cfg.simulation.spectrum = _S.PowerSpectrum(index=2.0, lower_bound=7.0, upper_bound=11.0)
            try:
                cfg = NssConfig(**cfg.model_dump())
            except Exception:
                ctx.count("generated-invalid")
                continue
            tab = results_table.init(cfg)
            tab["beta_rad"] = np.arange(3.0)
            ctx.count("hostile-strings")
            ctx.distinct.add(("hs", cfg.title, cfg.detector.name))
            judge_table(ctx, tab, cfg, os.path.join(work, "t.fits"), f"title {cfg.title!r}, detector name {cfg.detector.name!r}", rng)
        # a configuration without an ionosphere block (Optional; the radio stage accepts None)
        from nuspacesim.config import Simulation as _S2

        for spec_ in (_S2.MonoSpectrum(log_nu_energy=9.0), _S2.PowerSpectrum(index=2.0, lower_bound=7.0, upper_bound=11.0)):
            cfg = NssConfig()
            cfg.simulation.ionosphere = None
            cfg.simulation.spectrum = spec_
            tab = results_table.init(cfg)
            tab["beta_rad"] = np.arange(3.0)
            ctx.count("none-section")
            judge_table(ctx, tab, cfg, os.path.join(work, "t.fits"), f"configuration without an ionosphere block (spectrum {spec_.id})", rng)
        # the two fixed witnesses of the open finding (so that it is reported on every run)
        for tec in (0.30000000000000004, 1.2345678901234567e-05):
            cfg = NssConfig()
            cfg.simulation.ionosphere.total_electron_content = tec
            tab = results_table.init(cfg)
            tab["beta_rad"] = np.arange(3.0)
            judge_table(ctx, tab, cfg, os.path.join(work, "t.fits"), f"default configuration with ionosphere.total_electron_content = {tec!r}", rng)
        # ---- tables produced by real runs
        from nuspacesim.config import Simulation

        nruns = ctx.pick(4, 24)
        for k in range(nruns):
            cfg = NssConfig()
            cfg.simulation.mode = ["Diffuse", "Target"][k % 2]
            cfg.simulation.thrown_events = 60 if k % 2 == 0 else 1500
            cfg.detector.initial_position.latitude, cfg.detector.initial_position.longitude = 0.2, 1.1
            if k % 4 >= 2:
                cfg.simulation.spectrum = Simulation.PowerSpectrum(index=2.0, lower_bound=7.0, upper_bound=10.5)
            if k % 3 == 1:
                cfg.simulation.cloud_model = Simulation.MonoCloud(altitude=2.0)
            cfg.detector.radio.snr_threshold = 0.25
            cfg.detector.optical.enable = k % 5 != 4
            if k % 4 == 0:
                cfg.simulation.ionosphere = None  # a run without an ionosphere block (both channels still run)
            sim, log = fullrun.compute(cfg, seed=int(rng.integers(2**31)), freeze=False)
            if log.exception is not None:
                ctx.exception("raises", "compute() raised", log.exception, {"run": k})
                continue
            judge_table(ctx, sim, cfg, os.path.join(work, "r.fits"), f"real {cfg.simulation.mode} run #{k} ({len(sim)} rows, spectrum {cfg.simulation.spectrum.id})", rng)
            ctx.distinct.add(("run", k, len(sim)))
            ctx.count("real-runs")
        # ---- runs without a single surviving trajectory: the (empty) table still describes its run
        for k in range(2):
            cfg = NssConfig()
            cfg.title, cfg.detector.name = "empty run", f"balloon {k}"
            cfg.detector.initial_position.altitude = 33.0
            cfg.detector.radio.snr_threshold = 0.25
            cfg.simulation.spectrum = Simulation.PowerSpectrum(index=2.2, lower_bound=7.0, upper_bound=10.5) if k else Simulation.MonoSpectrum(log_nu_energy=9.75)
            if k == 0:
                cfg.simulation.mode, cfg.simulation.thrown_events = "Diffuse", 0
            else:
                cfg.simulation.mode, cfg.simulation.thrown_events = "Target", 50
                cfg.simulation.target.source_DEC = float(np.radians(89.0))  # never occulted from the equator
                cfg.simulation.target.source_obst = 600.0
            sim, log = fullrun.compute(cfg, seed=5 + k, freeze=False)
            if log.exception is not None:
                ctx.exception("raises", "compute() raised for a run without surviving trajectories", log.exception, {"run": f"empty-{k}"})
                continue
            if len(sim) != 0:
                ctx.obs["empty_run_not_empty"] = ctx.obs.get("empty_run_not_empty", 0) + 1
                continue
            judge_table(ctx, sim, cfg, os.path.join(work, "e.fits"), f"real {cfg.simulation.mode} run without a surviving trajectory (spectrum {cfg.simulation.spectrum.id})", rng)
            ctx.count("empty-runs")
        # ---- the command-line path: `nuspacesim run cfg.toml N -o file` then `show-plot file`
        import contextlib
        import io

        import dask
        from click.testing import CliRunner
        from nuspacesim.apps.cli import cli
        from nuspacesim.config import create_toml

        runner = CliRunner()
        ncli = ctx.pick(2, 8)
        for k in range(ncli):
            cfg = NssConfig()
            cfg.detector.initial_position.latitude, cfg.detector.initial_position.longitude = 0.3, -2.0
            cfg.simulation.thrown_events = 40
            argv = []
            if k % 2:
                argv += ["--powerspectrum", "2.5", "7", "10.5"]
                exp_spec = Simulation.PowerSpectrum(index=2.5, lower_bound=7.0, upper_bound=10.5)
            else:
                argv += ["--monospectrum", "9.25"]
                exp_spec = Simulation.MonoSpectrum(log_nu_energy=9.25)
            if k % 3 == 1:
                argv += ["--monocloud", "2.5"]
            if k % 2 == 1:  # staged writing (-w): the file the command leaves behind must still be complete
                argv += ["-w"]
            toml = os.path.join(work, "cli.toml")
            out = os.path.join(work, ["cli_out.fits", "cli_results"][k % 2 if k > 1 else 0] )
            if os.path.exists(out):
                os.remove(out)
            create_toml(toml, cfg)
            ctx.count("cli-run")
            with dask.config.set(scheduler="synchronous"):
                np.random.seed(100 + k)
                res = runner.invoke(cli, ["run", toml, "55", "-o", out] + argv)
            wit = {"argv": argv, "out": os.path.basename(out)}
            if res.exit_code != 0 or not os.path.exists(out):
                ctx.violation("cli", f"`nuspacesim run` with {argv} -o {os.path.basename(out)}: exit code {res.exit_code}, output file {'missing' if not os.path.exists(out) else 'present'} ({res.exception!r})", wit)
                continue
            exp = cfg.model_copy(deep=True)
            exp.simulation.thrown_events = 55
            exp.simulation.spectrum = exp_spec
            if k % 3 == 1:
                exp.simulation.cloud_model = Simulation.MonoCloud(altitude=2.5)
            try:
                from astropy.table import Table as _Tab

                tb = _Tab.read(out, format="fits")
                c2 = config_from_fits_public(out)
            except Exception as e:
                ctx.exception("cli", f"the file written by `nuspacesim run` {argv} cannot be reloaded", e, wit)
                continue
            probs = []
            if c2.simulation.thrown_events != 55:
                probs.append(f"thrown_events {c2.simulation.thrown_events} (expected 55)")
            if c2.simulation.spectrum != exp_spec:
                probs.append(f"spectrum {c2.simulation.spectrum!r} (expected {exp_spec!r})")
            if abs(c2.detector.initial_position.longitude - (-2.0)) > 1e-15 or abs(c2.detector.initial_position.latitude - 0.3) > 1e-15:
                probs.append("detector position")
            if "log_e_nu" not in tb.colnames or "OMCINT" not in {x.upper() for x in tb.meta}:
                probs.append("results columns / integral keywords missing from the file")
            # the file must hold every column and header keyword of the table that compute() returns
            # for this configuration (an equivalent in-process run)
            ref_sim, ref_log = fullrun.compute(exp, seed=100 + k, freeze=False)
            if ref_log.exception is None and ref_sim is not None:
                fkeys = {x.upper() for x in tb.meta}
                miss_k = sorted(x for x in (y.upper() for y in ref_sim.meta) if x not in fkeys and not x.startswith("HIERARCH "))
                miss_k = [x for x in miss_k if ("HIERARCH " + x) not in fkeys]
                miss_c = sorted(set(ref_sim.colnames) - set(tb.colnames))
                if miss_k or miss_c:
                    probs.append(f"the file lacks header values {miss_k[:8]} and columns {miss_c[:8]} that the table returned by compute() has")
            if probs:
                ctx.violation("cli", f"`nuspacesim run` {argv}: the results file does not describe the run: " + "; ".join(probs), wit)
            ctx.distinct.add(("cli", tuple(argv), os.path.basename(out)))
        # ---- "stored results can always be reloaded for plotting": the show-plot command on the files of
        #      a two-channel, a radio-only and an optical-only run (no plot selected, and one stage plot)
        os.environ.setdefault("MPLBACKEND", "Agg")
        for label_, opt_on, rad_on in (("both channels", True, True), ("radio only", False, True), ("optical only", True, False), ("no surviving trajectory", True, True)):
            cfg = NssConfig()
            cfg.simulation.thrown_events = 120 if label_ != "no surviving trajectory" else 0
            cfg.detector.optical.enable, cfg.detector.radio.enable = opt_on, rad_on
            cfg.detector.radio.snr_threshold = 0.25
            sim, log = fullrun.compute(cfg, seed=77, freeze=False)
            if log.exception is not None or sim is None or (len(sim) == 0) != (label_ == "no surviving trajectory"):
                ctx.inconclusive_because(f"no results table for the {label_} run of the reload monitor")
                continue
            fpath = os.path.join(work, "reload.fits")
            if os.path.exists(fpath):
                os.remove(fpath)
            sim.write(fpath, format="fits", overwrite=True)
            for argv_ in ([], ["-p", "taus_overview"]):
                ctx.count("reload-for-plotting")
                try:
                    import matplotlib.pyplot as _plt

                    with contextlib.redirect_stdout(io.StringIO()):
                        res = runner.invoke(cli, ["show-plot", fpath] + argv_)
                    _plt.close("all")
                    if res.exit_code != 0:
                        ctx.violation("reload", f"`nuspacesim show-plot` {argv_} on the results file of a {label_} run: exit code {res.exit_code} ({res.exception!r})", {"run": label_, "argv": argv_})
                except Exception as e:
                    ctx.exception("reload", f"show-plot on the results file of a {label_} run raised", e, {"run": label_})
    finally:
        shutil.rmtree(work, ignore_errors=True)
    for m in ("reload-for-plotting", "none-section", "hostile-strings", "empty-runs", "numpy-scalars", "columns", "header", "complete", "reconstruct", "real-runs", "cli-run"):
        ctx.require(m)
    return ctx.finish(
        rule="tables = results_table.init(config) + synthetic columns of every stored dtype (float64, float32, int64, 2-D EFields, Time) for seeded configurations (ASCII strings, finite numbers, both spectrum types, all cloud variants, lat != lon), one third with 17-significant-digit floats and two thirds with short-text floats (for which everything must be exact), plus tables returned by real small compute() runs in both modes; a case is a distinct (configuration, table)",
        assumptions=["astropy.io.fits / Table I/O", "strings are short ASCII without trailing blanks (FITS string rules)", "which fields config_from_fits reconstructs is observed at fits.Header.__getitem__", "float header differences are accepted only as the open known finding and only when the card-cutting rule predicts the exact read-back value"],
    )
