"""C01 — the diffuse geometric acceptance estimator is unbiased.

  identity    at interior points of the unit cube:  weight(u) * mcnorm  ==
              cos(theta_TrN) * |d(A, Omega)/du|, where the 4-volume element of the map
              u -> (ground spot S, trajectory direction t) is a *full* 4x4 finite-difference
              Jacobian of explicit 3-D vectors projected on tangent bases (no separability, no
              spherical-coordinate bookkeeping assumed), and cos(theta_TrN) = t . n
  one-hot     the weight the real mcintegral applies to event k (trigger one-hot, exit
              probability 1/0.826) equals the public-array weight used in 'identity'
  region      sampled ranges: theta_TrV(u1=1) = cone, phi_TrV covers [0, 2pi], phi_S covers the
              configured azimuth range, l covers [min, horizon] (ray-sphere intersection)
  quadrature  scrambled-Sobol equal-weight quadrature of the real throw + mcintegral(geo-only)
              converges to an independently integrated aperture (local-zenith coordinates)
"""
import numpy as np

from .. import core
from ..oracles import aperture_ref as A
from ..oracles import geom_ref as G

LEVEL = "exploration"
H = 2e-5  # central-difference step: rounding of the spot (arccos near nadir) ~1e-11/H, truncation ~H^2 * 1e3
ID_TOL = 2e-5


def requested(alt, limb_frac, cone_deg, az_deg):
    """The numbers the user asks for (canonical units). Oracles use these, never values read back
    from the configuration object (a validator that silently alters a setting must not go unseen)."""
    aH = G.horizon_nadir_angle(G.R_ASTROPY, alt)
    if limb_frac is not None:
        limb = float(limb_frac * aH)
    elif np.radians(7) >= aH:
        limb = float(0.5 * aH)
    else:
        limb = float(np.radians(7.0))
    return {"altitude": float(alt), "angle_from_limb": limb, "max_cherenkov_angle": float(np.radians(cone_deg)), "max_azimuth_angle": float(np.radians(az_deg))}


def make_cfg(alt, limb_frac, cone_deg, az_deg):
    """Built through the validating constructor (as a TOML file or the command line would)."""
    from nuspacesim.config import NssConfig

    r = requested(alt, limb_frac, cone_deg, az_deg)
    sim = {"max_cherenkov_angle": r["max_cherenkov_angle"], "max_azimuth_angle": r["max_azimuth_angle"]}
    if limb_frac is not None or np.radians(7) >= G.horizon_nadir_angle(G.R_ASTROPY, alt):
        sim["angle_from_limb"] = r["angle_from_limb"]
    return NssConfig(detector={"initial_position": {"altitude": r["altitude"], "latitude": 0.3, "longitude": 1.0}}, simulation=sim)


def vectors(g, cfg, sign):
    R = G.R_ASTROPY
    ip = cfg.detector.initial_position
    Dv = G.detector_vector(R, ip.altitude, ip.latitude, ip.longitude)
    S = R * G.unit_from_latlon(np.radians(np.asarray(g.latS)), np.radians(np.asarray(g.longS)))
    beta, n, t, l = G.emergence_from_vectors(Dv[None, :], S, np.asarray(g.thetaTrSubV), np.asarray(g.phiTrSubV), sign)
    return S, t, n, beta


def tangent_basis(v):
    """Two orthonormal vectors perpendicular to each unit vector v (rows)."""
    k = np.argmin(np.abs(v), axis=1)
    a = np.zeros_like(v)
    a[np.arange(v.shape[0]), k] = 1.0
    e1 = np.cross(v, a)
    e1 /= G.norm(e1)[:, None]
    e2 = np.cross(v, e1)
    return e1, e2


def shard(ctx, si, payload):
    from nuspacesim.simulation.geometry.region_geometry import RegionGeom

    R = G.R_ASTROPY
    for k, (alt, limb, cone, az) in enumerate(payload["cfgs"]):
        rng = ctx.subrng("c01", si, k)
        cfg = make_cfg(alt, limb, cone, az)
        req = requested(alt, limb, cone, az)
        wit = {"altitude": alt, "limb_frac": limb, "cone_deg": cone, "az_deg": az}
        g = RegionGeom(cfg)
        P = payload["P"]
        u = np.vstack([rng.uniform(0.01, 0.99, P), rng.uniform(H, 1 - H, P), rng.uniform(H, 1 - H, P), rng.uniform(0.01, 0.99, P)])
        g.throw(u.copy())
        kept = np.asarray(g.event_mask, bool).copy()
        # azimuth-origin convention: the one the reported emergence angles follow (pinned by C02)
        S0, tp, n0, bp = vectors(g, cfg, +1.0)
        _, tm, _, bm = vectors(g, cfg, -1.0)
        brep = np.radians(np.asarray(g.betaTrSubN))
        sign = +1.0 if np.nanmedian(np.abs(bp - brep)) <= np.nanmedian(np.abs(bm - brep)) else -1.0
        t0 = tp if sign > 0 else tm
        w_pub = np.asarray(g.costhetaTrSubN) / np.asarray(g.costhetaNSubV) / np.asarray(g.costhetaTrSubV) * g.mcnorm
        cos_trn_vec = np.sum(t0 * n0, axis=1)
        nk = int(kept.sum())
        # ---- one-hot: the weight mcintegral itself applies
        if nk:
            idx = rng.choice(nk, min(nk, payload["onehot"]), replace=False)
            wk = w_pub[kept]
            for j in idx:
                trig = np.zeros(nk)
                trig[j] = 1.0
                try:
                    mc, geo, npass, _ = g.mcintegral(trig, -1.0, np.full(nk, 1 / 0.826), 0.5, 1.0, 1.0)
                except Exception as e:
                    ctx.exception("raises", "mcintegral raised on a one-hot trigger array", e, wit)
                    break
                ctx.count("one-hot")
                want = wk[j] / P
                if not (abs(mc - want) <= 1e-9 * abs(want) and npass == 1):
                    ctx.violation("one-hot", f"altitude {alt} km: mcintegral applies weight {mc * P!r} to event {j} (passing events {npass}); cos(TrN)/cos(NV)/cos(TrV)*mcnorm from the public arrays is {wk[j]!r}", dict(wit, event=int(j)))
                    break
            # geo-only sum equals the mean of the public weights over all thrown
            try:
                # a call with a narrow cone first: the next call must not remember it
                g.mcintegral(np.ones(nk), float(np.cos(0.25 * cfg.simulation.max_cherenkov_angle)), np.full(nk, 1.0), 0.5, 1.0, 1.0)
                _, geo, _, _ = g.mcintegral(np.ones(nk), -1.0, np.full(nk, 1.0), 0.5, 1.0, 1.0)
                ctx.count("geo-sum")
                want = float(np.sum(wk)) / P
                if not abs(geo - want) <= 1e-9 * abs(want):
                    ctx.violation("one-hot", f"altitude {alt} km: after an earlier mcintegral call with a narrower cone, the geometry-only integral {geo!r} is not the sum of the per-event weights divided by the number thrown ({want!r})", wit)
            except Exception as e:
                ctx.exception("raises", "mcintegral raised", e, wit)
        # ---- full 4x4 Jacobian of (S, t) by central differences
        ea, eb = tangent_basis(n0)
        fa, fb = tangent_basis(t0)
        J = np.zeros((P, 4, 4))
        for i in range(4):
            dv = []
            for sgn in (+1, -1):
                uu = u.copy()
                uu[i] += sgn * H
                g.throw(uu)
                S, t, _, _ = vectors(g, cfg, sign)
                dv.append((S, t))
            dS = (dv[0][0] - dv[1][0]) / (2 * H)
            dt = (dv[0][1] - dv[1][1]) / (2 * H)
            J[:, 0, i] = np.sum(dS * ea, axis=1)
            J[:, 1, i] = np.sum(dS * eb, axis=1)
            J[:, 2, i] = np.sum(dt * fa, axis=1)
            J[:, 3, i] = np.sum(dt * fb, axis=1)
        detJ = np.abs(np.linalg.det(J))
        rhs = cos_trn_vec * detJ
        sel = kept & np.isfinite(rhs) & np.isfinite(w_pub) & (np.abs(np.degrees(bp if sign > 0 else bm) - 42.0) > 1e-3) & (cos_trn_vec > 1e-6)
        ctx.count("identity", int(sel.sum()))
        if sel.any():
            rel = np.abs(w_pub[sel] - rhs[sel]) / np.abs(rhs[sel])
            ctx.track_worst("identity_rel", float(np.max(rel)), ID_TOL)
            if not np.all(rel <= ID_TOL):
                j = int(np.flatnonzero(sel)[int(np.argmax(rel))])
                ctx.violation(
                    "identity",
                    f"altitude {alt} km, limb {limb}, cone {cone} deg, azimuth {az} deg: at u={u[:, j].tolist()} weight*mcnorm = {w_pub[j]!r} but cos(theta_TrN) |d(A,Omega)/du| = {rhs[j]!r} (ratio {w_pub[j]/rhs[j]!r}; median ratio over {int(sel.sum())} points {float(np.median(w_pub[sel]/rhs[sel]))!r})",
                    dict(wit, u=[float(x).hex() for x in u[:, j]]),
                )
        # separability is recorded, not assumed
        off = np.abs(J[:, :2, :2]).max() / max(np.abs(J[:, :2, 2:]).max(), 1e-300)
        ctx.obs["map_is_separable_today"] = bool(off < 1e-6)
        ctx.distinct.add_rows(np.full(P, alt), np.full(P, cone), np.full(P, az), np.full(P, -1.0 if limb is None else limb), u[0], u[1], u[2], u[3], nontrivial=sel)
        if si == 0 and k == 0 and sel.any():
            j = int(np.flatnonzero(sel)[0])
            ctx.sample({"config": wit, "u": u[:, j].tolist(), "weight_times_mcnorm": float(w_pub[j]), "cos_thetaTrN_times_jacobian": float(rhs[j])})
        # ---- region image
        edge = np.array([[0.0, 1.0, 0.5, 0.5, 0.5, 0.5, 0.5, 0.5], [0.5, 0.5, 0.0, 1.0, 0.5, 0.5, 0.5, 0.5], [0.5, 0.5, 0.5, 0.5, 0.0, 1.0, 0.5, 0.5], [0.5, 0.5, 0.5, 0.5, 0.5, 0.5, 1e-9, 1 - 1e-9]])
        g.throw(edge)
        ctx.count("region", 8)
        aH = G.horizon_nadir_angle(R, alt)
        lmax_ref = G.tangent_length(R, alt)
        lmin_ref = G.los_length_at_nadir(R, alt, aH - req["angle_from_limb"])
        probs = []
        if not (abs(g.thetaTrSubV[0]) <= 1e-12 and abs(g.thetaTrSubV[1] - req["max_cherenkov_angle"]) <= 1e-9):
            probs.append(f"theta_TrV(u1=0,1) = {g.thetaTrSubV[0]!r}, {g.thetaTrSubV[1]!r} (cone {req['max_cherenkov_angle']!r})")
        if not (abs(g.phiTrSubV[2]) <= 1e-12 and abs(g.phiTrSubV[3] - 2 * np.pi) <= 1e-9):
            probs.append(f"phi_TrV(u2=0,1) = {g.phiTrSubV[2]!r}, {g.phiTrSubV[3]!r}")
        if not (abs(g.phiS[5] - g.phiS[4] - req["max_azimuth_angle"]) <= 1e-9):
            probs.append(f"phi_S range {g.phiS[5] - g.phiS[4]!r} (configured {req['max_azimuth_angle']!r})")
        if not (abs(g.losPathLen[6] - lmax_ref) <= 1e-3 * lmax_ref and abs(g.losPathLen[7] - lmin_ref) <= 1e-6 * lmin_ref + 1e-6 * (lmax_ref - lmin_ref)):
            probs.append(f"l(u4 -> 0, 1) = {g.losPathLen[6]!r}, {g.losPathLen[7]!r}; ray-sphere intersection gives horizon {lmax_ref!r}, minimum {lmin_ref!r}")
        if probs:
            ctx.violation("region", f"altitude {alt} km, limb {limb}: " + "; ".join(probs), wit)
        # ---- one node array scanned over configurations (the usual way an acceptance curve is made):
        #      the estimate from the shared array must be the estimate from a private copy of the nodes
        shared = np.vstack([rng.uniform(0, 1, 2048) for _ in range(4)])
        nodes0 = shared.copy()
        scan = [cfg, make_cfg(alt * 1.5, limb, cone, az), make_cfg(alt, limb, min(89.0, cone * 2), az), cfg]
        # references first: for each configuration an object built, thrown and integrated on its own
        refs = []
        try:
            for c2 in scan:
                gb = RegionGeom(c2)
                gb.throw(nodes0.copy())
                nb = int(np.sum(gb.event_mask))
                refs.append((nb, gb.mcintegral(np.ones(nb), -1.0, np.ones(nb), 0.5, 1.0, 1.0)[1], np.array(gb.losPathLen, copy=True)))
            gas = [RegionGeom(c2) for c2 in scan]  # then all objects of the scan are built, and only then used
        except Exception as e:
            ctx.exception("raises", "throw / mcintegral raised while preparing a scan", e, wit)
            refs, gas = [], []
        for j, (ga, (nb, eb_, lb_)) in enumerate(zip(gas, refs)):
            try:
                ga.throw(shared)
                na = int(np.sum(ga.event_mask))
                ea_ = ga.mcintegral(np.ones(na), -1.0, np.ones(na), 0.5, 1.0, 1.0)[1]
            except Exception as e:
                ctx.exception("raises", f"throw / mcintegral raised at step {j} of a scan with one shared node array", e, wit)
                break
            ctx.count("shared-grid")
            if not (na == nb and ea_ == eb_ and np.array_equal(np.asarray(ga.losPathLen), lb_)):
                ctx.violation("shared-grid", f"altitude {alt} km: step {j} of a scan (all {len(gas)} objects built first, one array of nodes re-used): geometry-only integral {ea_!r}; an object built, thrown and integrated on its own with a private copy of the same nodes gives {eb_!r} ({na} vs {nb} events kept; node array {'changed' if shared.tobytes() != nodes0.tobytes() else 'unchanged'})", dict(wit, step=j))
                break
        # ---- all objects of the scan are alive and thrown: integrating them again, last to first, gives each
        #      object's own value (state shared between objects, seeded C01-17)
        for j in reversed(range(len(gas))):
            if len(refs) != len(gas):
                break
            try:
                ga = gas[j]
                na = int(np.sum(ga.event_mask))
                ea_ = ga.mcintegral(np.ones(na), -1.0, np.ones(na), 0.5, 1.0, 1.0)[1]
            except Exception as e:
                ctx.exception("raises", f"mcintegral of object {j} of a scan raised after the other objects were used", e, wit)
                break
            ctx.count("shared-grid")
            if ea_ != refs[j][1]:
                ctx.violation("shared-grid", f"altitude {alt} km: object {j} of a scan integrated again after the other objects were thrown and integrated: {ea_!r}; on its own {refs[j][1]!r}", dict(wit, step=j))
                break
        # ---- quadrature against the independent aperture
        if payload["sobol_m"] and k < payload["nquad"]:
            from scipy.stats import qmc

            M, m = payload["sobol_M"], payload["sobol_m"]
            # (a) truncated: u4 in [CUT, 1] removes the 1/cos(theta_NV) tail at the horizon, so the
            #     quadrature error is small and the comparison sharp; the truncated annulus is
            #     [l_min, l(u4 = CUT)] with l taken from the real throw (its inverse CDF is C02's job)
            # (b) full cube: coarse net only (log-divergent variance at the horizon)
            CUT = 0.02
            g.throw(np.array([[0.5], [0.5], [0.5], [CUT]]))
            l_cut = float(g.losPathLen[0])
            for mode in ("truncated", "full"):
                ests = []
                for s_ in range(M):
                    pts = qmc.Sobol(d=4, scramble=True, seed=int(rng.integers(2**31))).random_base2(m).T
                    pts = np.clip(pts, 1e-300, 1.0)
                    if mode == "truncated":
                        pts[3] = CUT + (1 - CUT) * pts[3]
                    g.throw(np.ascontiguousarray(pts))
                    nk2 = int(np.sum(g.event_mask))
                    _, geo, _, _ = g.mcintegral(np.ones(nk2), -1.0, np.ones(nk2), 0.5, 1.0, 1.0)
                    ests.append(float(geo) * ((1 - CUT) if mode == "truncated" else 1.0))
                Q, se = float(np.mean(ests)), float(np.std(ests, ddof=1) / np.sqrt(M))
                Aref, Aerr = A.aperture(R, alt, G.los_length_at_nadir(R, alt, G.horizon_nadir_angle(R, alt) - req["angle_from_limb"]), l_cut if mode == "truncated" else G.tangent_length(R, alt), req["max_cherenkov_angle"], req["max_azimuth_angle"])
                floor = payload["quad_floor_trunc"] if mode == "truncated" else payload["quad_floor"]
                tol = max(8 * se, floor * Aref) + 10 * Aerr
                ctx.count("quadrature-" + mode)
                ctx.track_worst(f"quadrature_{mode}_dev_over_tol", abs(Q - Aref) / tol, 1.0)
                ctx.obs.setdefault("quadrature", []).append({"mode": mode, "config": wit, "sobol_mean": Q, "stderr": se, "aperture_ref": Aref, "rel_dev": (Q - Aref) / Aref, "tol_rel": tol / Aref})
                if not abs(Q - Aref) <= tol:
                    ctx.violation("quadrature", f"altitude {alt} km, limb {limb}, cone {cone} deg, azimuth {az} deg [{mode}]: Sobol quadrature of the estimator gives {Q!r} +- {se:.3g} km^2 sr, independent aperture {Aref!r} (relative deviation {(Q-Aref)/Aref:.3e}, tolerance {tol/Aref:.1e})", dict(wit, mode=mode))


def fullrun_shard(ctx, si, payload):
    """The geometry-only integrals a full diffuse run reports (header RMCINTGO: every thrown
    trajectory inside the configured cone; OMCINTGO: those whose effective Cherenkov cone holds the
    detector) against the independent aperture, within the Monte Carlo scatter of N thrown."""
    from .. import fullrun, inject

    inject.require_safe()
    R = G.R_ASTROPY
    for alt, limb, cone, az, seed in payload["runs"]:
        cfg = make_cfg(alt, limb, cone, az)
        req = requested(alt, limb, cone, az)
        cfg.simulation.thrown_events = payload["N"]
        wit = {"altitude": alt, "limb_frac": limb, "cone_deg": cone, "az_deg": az, "seed": seed, "thrown": payload["N"]}
        sim, log = fullrun.compute(cfg, seed=seed, scheduler="threads", num_workers=8, freeze=False)
        if log.exception is not None or sim is None:
            ctx.exception("raises", "compute() raised for a diffuse run with both channels", log.exception, wit)
            continue
        Aref, _ = A.aperture(R, alt, G.los_length_at_nadir(R, alt, G.horizon_nadir_angle(R, alt) - req["angle_from_limb"]), G.tangent_length(R, alt), req["max_cherenkov_angle"], req["max_azimuth_angle"])
        rgo, ogo = float(sim.meta["RMCINTGO"][0]), float(sim.meta["OMCINTGO"][0])
        ctx.count("fullrun-geo")
        ctx.distinct.add(("fullrun", alt, limb, cone, az, seed))
        ctx.obs.setdefault("fullrun_geo", []).append({"config": wit, "RMCINTGO_over_aperture": rgo / Aref, "OMCINTGO_over_aperture": ogo / Aref, "rows": len(sim)})
        if not (abs(rgo / Aref - 1) <= payload["tol"] and ogo <= rgo * (1 + 1e-12)):
            ctx.violation("fullrun-geo", f"altitude {alt} km, cone {cone} deg: a full diffuse run with both channels ({payload['N']} thrown, seed {seed}) reports RMCINTGO = {rgo!r} and OMCINTGO = {ogo!r} km^2 sr; the aperture of the configured region is {Aref!r} (ratio {rgo / Aref:.3f}, Monte Carlo tolerance {payload['tol']})", wit)


def faces(ctx):
    """The closed cube's u4 faces. u4 = 0 is the horizon: integrand x Jacobian diverges to +inf there, so
    a kept event's weight must be positive (finite or +inf); the code gives what 1 / cos(theta_NV) rounds
    to (open finding, shared with C03). u4 = 1 on an annulus that reaches the sub-detector point: the
    weight is cos(TrN) / cos(TrV) x mcnorm (cos(theta_NV) = 1), computed here from u alone."""
    import math

    from nuspacesim.simulation.geometry.region_geometry import RegionGeom

    for alt in (33.0, 10.0, 600.0, 525.0, 1.0, 4.0):
        cfg = make_cfg(alt, 0.5, 3.0, 360.0)
        g = RegionGeom(cfg)
        for u4 in (0.0, 2.0**-53):
            for u1 in (0.5, 0.0):
                u = np.array([[u1], [0.5], [0.5], [u4]])
                g.throw(u)
                ctx.count("faces")
                if not bool(g.event_mask[0]):
                    continue
                with np.errstate(all="ignore"):
                    w = g.mcintegral(np.ones(1), -1.0, np.ones(1), 0.5, 1.0, 1.0)[1]
                cnv = float(np.asarray(g.costhetaNSubV)[0])
                if not (w > 0):
                    key = "diffuse:horizon-face-weight" if not (cnv > 0) else "identity"
                    ctx.violation(key, f"altitude {alt} km: the kept event at u = ({u1}, 0.5, 0.5, {u4!r}) (the horizon; integrand x Jacobian -> +inf) has weight x normalisation {w!r} (cos(theta_NV) = {cnv!r})", {"altitude": alt, "u": [u1, 0.5, 0.5, u4]})
    # the nadir end of a whole-disc annulus
    for alt in list(range(1, 201, 1 if ctx.thorough() else 5)) + [3, 8, 13, 23, 33, 38]:
        cone = 80.0
        cfg = make_cfg(float(alt), 1 - 1e-9, cone, 360.0)
        g = RegionGeom(cfg)
        for u4 in (1.0, float(np.nextafter(1.0, 0.0))):
            u1, u2 = 0.9, 0.6
            g.throw(np.array([[u1], [u2], [0.5], [u4]]))
            ctx.count("faces")
            with np.errstate(all="ignore"):
                nk = int(np.sum(g.event_mask))
                w = g.mcintegral(np.ones(nk), -1.0, np.ones(nk), 0.5, 1.0, 1.0)[1] if nk else 0.0
            # at the nadir cos(theta_NV) = 1 and cos(TrN) = cos(TrV) up to the 1e-9 tilt: weight = mcnorm
            sth = math.sin(math.radians(cone)) * math.sqrt(u1)
            beta = math.degrees(math.asin(math.sqrt((1 - sth) * (1 + sth))))
            # normalisation from the configuration alone: pi sin^2(cone) az (Lmax dL^2 - dL^3 / 3) / (2 (R + h))
            R_ = G.R_ASTROPY
            Lmax = G.tangent_length(R_, float(alt))
            aH_ = G.horizon_nadir_angle(R_, float(alt))
            dL = Lmax - G.los_length_at_nadir(R_, float(alt), aH_ - cfg.simulation.angle_from_limb)
            norm = math.pi * math.sin(math.radians(cone)) ** 2 * 2 * math.pi * (Lmax * dL**2 - dL**3 / 3) / (2 * (R_ + float(alt)))
            want = norm if 0 <= beta < 42 else 0.0
            if not abs(w - want) <= 1e-5 * abs(want) + 1e-300:
                ctx.violation("identity", f"altitude {alt} km, annulus reaching the sub-detector point: the event at u = ({u1}, {u2}, 0.5, {u4!r}) (nadir; emergence {beta:.2f} deg) has weight x normalisation {w!r}; integrand x Jacobian is {want!r}", {"altitude": alt, "u": [u1, u2, 0.5, u4], "whole_disc": True})


def seams(ctx):
    """Sums are additive over a split of the thrown events, whatever the number of kept events - in particular
    when it is an exact multiple of a block size a summation routine may use (8192, 16384, 65536; seeded
    C01-16: the remainder `x[-0:]` of a block-wise sum is the whole array). The kept count is steered onto the
    seam by cutting the node array where the running count of kept events reaches it (whether an event is
    kept does not depend on the other events of the throw: C11)."""
    from nuspacesim.simulation.geometry.region_geometry import RegionGeom

    rng = ctx.subrng("c01-seams")
    for alt, limb, cone, az in ((525.0, None, 3.0, 360.0), (33.0, 0.5, 20.0, 90.0)):
        cfg = make_cfg(alt, limb, cone, az)
        wit = {"altitude": alt, "cone_deg": cone}
        u = rng.uniform(0, 1, (4, ctx.pick(60_000, 200_000)))
        try:
            g = RegionGeom(cfg)
            g.throw(u.copy())
            cum = np.cumsum(np.asarray(g.event_mask, bool))
            for target in (8192, 8193, 16384, 3 * 8192, 65536):
                if cum[-1] < target:
                    continue
                n = int(np.searchsorted(cum, target)) + 1
                vals = []
                for a, b in ((0, n), (0, n // 2), (n // 2, n)):
                    gg = RegionGeom(cfg)
                    gg.throw(u[:, a:b].copy())
                    nk = int(np.sum(gg.event_mask))
                    vals.append((nk, b - a, float(gg.mcintegral(np.ones(nk), -1.0, np.ones(nk), 0.5, 1.0, 1.0)[1])))
                ctx.count("seams")
                whole, h1, h2 = vals
                lhs, rhs = whole[2] * whole[1], h1[2] * h1[1] + h2[2] * h2[1]
                if whole[0] != target or h1[0] + h2[0] != target or not abs(lhs - rhs) <= 1e-10 * abs(rhs):
                    ctx.violation("seams", f"altitude {alt} km: {whole[1]} thrown events of which exactly {whole[0]} are kept: geometry-only integral x thrown = {lhs!r}; the two halves ({h1[0]} + {h2[0]} kept) add up to {rhs!r}", dict(wit, kept=target))
                ctx.distinct.add(("seam", alt, target))
        except Exception as e:
            ctx.exception("raises", "throw / mcintegral raised in the block-seam monitor", e, wit)


def run(ctx):
    faces(ctx)
    ctx.require("faces")
    seams(ctx)
    ctx.require("seams")
    sd = 100 * ctx.seed
    fr = [(525.0, None, 3.0, 360.0, 11 + sd), (33.0, 0.5, 3.0, 360.0, 12 + sd)]
    if ctx.thorough():
        fr += [(525.0, None, 3.0, 360.0, 13 + sd), (1000.0, 0.3, 10.0, 90.0, 14 + sd), (33.0, 0.5, 3.0, 360.0, 15 + sd), (5.0, 0.5, 1.0, 360.0, 16 + sd)]
    core.run_shards(ctx, "nssmon.checks.c01", "fullrun_shard", [{"runs": fr[i::2], "N": 600, "tol": 0.25} for i in range(2)], workers=2, timeout=ctx.pick(900, 3000))
    ctx.require("fullrun-geo")
    rng = ctx.subrng("c01-main")
    alts = [1.0, 5.0, 33.0, 525.0, 1000.0, 36000.0]
    limbs = [None, 1e-3, 0.1, 0.5, 0.9, 0.999]
    cones = [3.0, 0.1, 20.0, 60.0, 89.0, 0.5]
    azs = [360.0, 1.0, 90.0]
    ncfg = ctx.pick(12, 64)
    cfgs = []
    for i in range(ncfg):
        if i < 12:
            cfgs.append((alts[i % 6], limbs[(i + i // 6) % 6], cones[(i * 5 + i // 6) % 6], azs[i % 3]))
        else:
            cfgs.append((float(np.exp(rng.uniform(0, np.log(4e4)))), float(rng.choice([1e-3, 0.1, 0.5, 0.9, 0.999, rng.uniform(0.01, 0.99)])), float(rng.choice(cones + [float(rng.uniform(0.1, 89))])), float(rng.choice(azs + [float(rng.uniform(1, 360))]))))
    nsh = ctx.pick(12, 16)
    payloads = [
        {"cfgs": cfgs[i::nsh], "P": ctx.pick(4096, 20000), "onehot": ctx.pick(40, 200), "sobol_m": ctx.pick(15, 18), "sobol_M": ctx.pick(4, 8), "nquad": ctx.pick(1, 4), "quad_floor": ctx.pick(3e-2, 1e-2), "quad_floor_trunc": ctx.pick(3e-3, 1e-3)}
        for i in range(nsh)
    ]
    core.run_shards(ctx, "nssmon.checks.c01", "shard", payloads, workers=nsh)
    for m in ("identity", "one-hot", "geo-sum", "shared-grid", "region", "quadrature-truncated", "quadrature-full"):
        ctx.require(m)
    return ctx.finish(
        rule="configurations: altitude {1,5,33,525,1000,36000} km and log-uniform, limb angle {default, 1e-3..0.999 of the horizon nadir angle}, cone {0.1,.5,3,20,60,89} deg, azimuth {1,90,360} deg; per configuration uniform interior points (u1,u4 in [.01,.99]) for the finite-difference identity (9 throws each), a one-hot subsample through the real mcintegral, region edge points and scrambled-Sobol quadratures; a case is a distinct (configuration, u) that is a kept event away from the 42 deg limit",
        assumptions=["Earth radius = astropy R_earth", "full runs: 600 thrown trajectories, observed scatter of RMCINTGO / aperture about 2 % (worst 6 % of 12), tolerance 25 % (the estimator's variance is log-divergent at the horizon)", "finite-difference step 2e-5, identity tolerance 2e-5 relative (a wrong or missing factor changes the weight by >= 1e-3)", "quadrature: with u4 >= 0.02 (horizon tail removed, truncated annulus from the real throw) max(8 standard errors, 0.3 % [quick] / 0.1 % [thorough]); on the full cube only a coarse net, max(8 standard errors, 3 % / 1 %), because the estimator has log-divergent variance at the horizon", "scipy.integrate.quad for the reference aperture", "a defect confined to a set of points the workload never samples is invisible"],
    )
