"""C11 — every per-event stage is a pure, order-independent function of its inputs.

Metamorphic monitors over the real public entry points, bit for bit:
  permutation   f(x[perm]) == f(x)[perm]
  split         concat(f(x[:k]), f(x[k:])) == f(x)       (all k for n <= 17, seeded otherwise)
  repeat        repeated calls on the same object (fresh arrays, and the *same* buffer objects
                refilled in place) give identical results
  immutable     SHA-256 of every argument buffer before == after
Random numbers are fixed through the explicit-u API where one exists and through the constant
RNG stub elsewhere, so nothing is assumed about the order in which a stage draws.
"""
import contextlib
import hashlib
import io
import math

import numpy as np

from .. import core, inject, rngctl

LEVEL = "exploration"
B42 = math.radians(42.0)


def digest(a):
    a = np.ascontiguousarray(a)
    return hashlib.sha256(a.tobytes() + str(a.dtype).encode() + str(a.shape).encode()).hexdigest()


def eq(a, b):
    a, b = np.asarray(a), np.asarray(b)
    return a.shape == b.shape and a.dtype == b.dtype and a.tobytes() == b.tobytes()


def first_diff(a, b):
    a, b = np.asarray(a), np.asarray(b)
    if a.shape != b.shape:
        return f"shape {a.shape} vs {b.shape}"
    if a.dtype != b.dtype:
        return f"dtype {a.dtype} vs {b.dtype}"
    av, bv = a.reshape(a.shape[0], -1) if a.ndim else a.reshape(1, 1), b.reshape(b.shape[0], -1) if b.ndim else b.reshape(1, 1)
    d = np.flatnonzero(np.any(av.view(np.uint8).reshape(av.shape[0], -1) != bv.view(np.uint8).reshape(bv.shape[0], -1), axis=1))
    i = int(d[0]) if d.size else -1
    return f"{d.size} of {a.shape[0]} events differ, first at event {i}: {av[i].ravel()[:3].tolist()} vs {bv[i].ravel()[:3].tolist()}"


class Stage:
    """name, make() -> object, call(obj, *arrays) -> tuple of per-event arrays, gen(rng, n) -> arrays"""

    def __init__(self, name, make, call, gen, stub=None, sizes=(1, 2, 17, 8191, 8192, 8193, 20000)):
        self.name, self.make, self.call, self.gen, self.stub, self.sizes = name, make, call, gen, stub, sizes


def drive(ctx, st, rng, nperm, nrep):
    for n in st.sizes:
        x = st.gen(rng, n)
        obj = st.make()
        wit = {"stage": st.name, "n": n}

        def raw_call(arrs, o=obj):
            cm = rngctl.stub(rngctl.constant(st.stub)) if st.stub is not None else contextlib.nullcontext()
            with cm, contextlib.redirect_stdout(io.StringIO()):
                r = st.call(o, *arrs)
            return tuple(np.array(v, copy=True) for v in (r if isinstance(r, tuple) else (r,)))

        class FollowUpRaised(Exception):
            pass

        def call(arrs, o=obj):
            # a follow-up call (repeat / permuted / split / single) of a batch whose first call
            # succeeded must succeed too: an exception here is a violation, not a harness error
            try:
                return raw_call(arrs, o)
            except Exception as e:
                ctx.exception("followup-raises", f"{st.name}: a repeated / permuted / split call raised although the first call on the same {n} events succeeded", e, wit)
                raise FollowUpRaised() from None

        d0 = [digest(a) for a in x]
        try:
            base = raw_call(x)
        except Exception as e:
            ctx.exception("raises", f"{st.name}: raised on a valid batch of {n}", e, wit)
            continue
        try:
            _drive_one(ctx, st, rng, nperm, nrep, n, x, obj, wit, call, base, d0)
        except FollowUpRaised:
            continue


def _drive_one(ctx, st, rng, nperm, nrep, n, x, obj, wit, call, base, d0):
    if True:
        ctx.count("immutable", n)
        if [digest(a) for a in x] != d0:
            j = [i for i, (a, d) in enumerate(zip(x, d0)) if digest(a) != d][0]
            ctx.violation("immutable", f"{st.name}: input array #{j} was modified by the call (batch of {n})", dict(wit, argument=j))
            x = st.gen(rng, n)
            base = call(x)
        ctx.distinct.add((st.name, n, d0[0][:16]))
        # ---- repeat on the same object: fresh copies, then the same buffers refilled in place
        bufs = [a.copy() for a in x]
        for r in range(nrep):
            ctx.count("repeat", n)
            again = call([a.copy() for a in x])
            if not all(eq(p, q) for p, q in zip(again, base)):
                k = [i for i, (p, q) in enumerate(zip(again, base)) if not eq(p, q)][0]
                ctx.violation("repeat", f"{st.name}: call #{r + 2} on the same object differs from the first (batch of {n}, output #{k}): {first_diff(again[k], base[k])}", dict(wit, output=k))
                break
        # ---- permutation (through reused buffers: the same array objects, new contents)
        stop = False
        for pi in range(nperm if n > 1 else 0):
            # even rounds: the same buffer objects are refilled in place and passed twice in a row
            # (an identity-keyed cache must not survive a change of contents); odd: fresh arrays
            for sub_i in range(2 if pi % 2 == 0 else 1):
                perm = rng.permutation(n)
                for b_, a in zip(bufs, x):
                    b_[...] = a[perm] if a.shape[:1] == (n,) else a[..., perm]
                got = call(bufs if pi % 2 == 0 else [b_.copy() for b_ in bufs])
                ctx.count("permutation", n)
                bad = [i for i, (p, q) in enumerate(zip(got, base)) if not eq(p, q[perm])]
                if bad:
                    k = bad[0]
                    ctx.violation("permutation", f"{st.name}: permuting the {n} events does not permute output #{k} ({'same buffer objects refilled in place, consecutive calls' if pi % 2 == 0 else 'fresh arrays'}): {first_diff(got[k], base[k][perm])}", dict(wit, output=k, reused_buffers=pi % 2 == 0))
                    stop = True
                    break
            if stop:
                break
        # ---- split
        if n > 1:
            ks = list(range(1, n)) if n <= 17 else sorted(set([1, n - 1, n // 2] + [int(v) for v in rng.integers(1, n, 3)]))
            for k_ in ks:
                lo = call([a[:k_].copy() if a.shape[:1] == (n,) else a[..., :k_].copy() for a in x])
                hi = call([a[k_:].copy() if a.shape[:1] == (n,) else a[..., k_:].copy() for a in x])
                ctx.count("split", n)
                def cat(p, q):
                    try:
                        return np.concatenate([p, q])
                    except ValueError:
                        return np.zeros((0,))  # incompatible shapes: cannot equal the whole-batch output

                bad = [i for i, (p, q, r_) in enumerate(zip(lo, hi, base)) if not eq(cat(p, q), r_)]
                if bad:
                    k = bad[0]
                    ctx.violation("split", f"{st.name}: splitting the batch of {n} at {k_} and concatenating changes output #{k}: parts have shapes {np.shape(lo[k])} and {np.shape(hi[k])}, the whole batch {np.shape(base[k])}; {first_diff(cat(lo[k], hi[k]), base[k])}", dict(wit, split=k_, output=k))
                    break
        # ---- single events equal the batch rows
        if 1 < n <= 8193:
            for i in [0, n - 1, int(rng.integers(0, n))]:
                one = call([a[i : i + 1].copy() if a.shape[:1] == (n,) else a[..., i : i + 1].copy() for a in x])
                ctx.count("single", 1)
                if not all(eq(p, q[i : i + 1]) for p, q in zip(one, base)):
                    ctx.violation("split", f"{st.name}: event {i} evaluated alone differs from its row in the batch of {n}", dict(wit, event=i))
                    break
        if st.name == "Taus.tau_energy(u)" and n == 17:
            ctx.sample({"stage": st.name, "n": n, "inputs_first_event": [float(np.ravel(a)[0]) for a in x], "outputs_first_event": [float(np.ravel(b)[0]) for b in base]})


def stages(which):
    from nuspacesim.config import NssConfig
    from nuspacesim.simulation.eas_optical.eas import EAS
    from nuspacesim.simulation.eas_radio.radio import EASRadio
    from nuspacesim.simulation.eas_radio.radio_antenna import calculate_snr
    from nuspacesim.simulation.geometry.region_geometry import RegionGeom, RegionGeomToO
    from nuspacesim.simulation.spectra.spectra import Spectra
    from nuspacesim.simulation.taus.taus import Taus

    cfg = NssConfig()
    out = []

    def g_angles(rng, n):
        b = rng.uniform(0.0017453292519943296, 0.7330382858376184, n)
        r = rng.random(n)
        b = np.where(r < 0.15, rng.uniform(0, 0.0017, n), b)
        b = np.where(r > 0.9, rng.uniform(0.74, 1.5, n), b)
        return b

    if which == "geom":
        def throw(o, u):
            o.throw(u)
            return tuple(getattr(o, k) for k in ("losPathLen", "betaTrSubN", "latS", "longS", "thetaTrSubV", "phiTrSubV", "costhetaTrSubN", "costhetaNSubV", "event_mask", "elevAngVSubN", "aziAngVSubN"))

        def gen_u(rng, n):
            u = rng.uniform(0, 1, (4, n))
            if n > 8:
                u[3, :4] = [0.0, 1.0, 1e-17, 1 - 1e-16]
                u[0, 4:6] = [0.0, 1.0]
            return (u,)

        out.append(Stage("RegionGeom.throw(u)", lambda: RegionGeom(cfg), throw, gen_u))

        def along(o, u, s):
            o.throw(u)
            m = np.asarray(o.event_mask, bool)
            la, lo = o.find_lat_long_along_traj(s[m])
            fl, fo = np.full(u.shape[1], np.nan), np.full(u.shape[1], np.nan)
            fl[m], fo[m] = la, lo
            return fl, fo

        out.append(Stage("RegionGeom.find_lat_long_along_traj", lambda: RegionGeom(cfg), along, lambda rng, n: (rng.uniform(0, 1, (4, n)), rng.choice([0.0, 1.0, 100.0], n)), sizes=(1, 2, 17, 8193)))
    if which == "too":
        c2 = NssConfig()
        c2.simulation.mode = "Target"

        def tthrow(o, t):
            o.throw(t)
            n = t.size
            hm = np.asarray(o.horizon_mask, bool)
            kept = np.zeros(n, bool)
            idx = np.flatnonzero(hm)[np.asarray(o.volume_mask, bool)]
            kept[idx] = True
            beta, L = np.full(n, np.nan), np.full(n, np.nan)
            beta[idx], L[idx] = o.beta_rad(), o.pathLens()
            return np.asarray(o.sourceNadRad), np.asarray(o.alt_deg), hm, kept, beta, L, np.asarray(o.times.jd1), np.asarray(o.times.jd2)

        out.append(Stage("RegionGeomToO.throw(times)", lambda: RegionGeomToO(c2), tthrow, lambda rng, n: (np.where(rng.random(n) < 0.1, 0.0, rng.uniform(0, 1, n)),), sizes=(1, 2, 17, 2000)))
    if which == "tau":
        g_le = lambda rng, n: np.where(rng.random(n) < 0.2, rng.choice([6.0, 8.25, 12.0, 12 - 1e-7, float(np.nextafter(12.0, 0)), float(np.nextafter(6.0, 7))], n), rng.uniform(6, 12, n))
        out.append(Stage("Taus.tau_exit_prob", lambda: Taus(cfg), lambda o, b, le: o.tau_exit_prob(b, le), lambda rng, n: (g_angles(rng, n), g_le(rng, n))))
        out.append(Stage("Taus.tau_energy(u)", lambda: Taus(cfg), lambda o, b, le, u: o.tau_energy(b, le, u), lambda rng, n: (g_angles(rng, n), g_le(rng, n), rng.uniform(1e-9, 1 - 1e-9, n))))
        out.append(Stage("Taus.__call__", lambda: Taus(cfg), lambda o, b, le: o(b, le), lambda rng, n: (np.minimum(g_angles(rng, n), 0.7330382858376184), g_le(rng, n)), stub=0.37))

        def g_le_scan(rng, n):
            # an energy scan: consecutive blocks of one tabulated energy each (8192 = the sampler's chunk)
            bl = 8192 if n > 8192 else max(1, n // 3)
            nodes = rng.permutation(np.arange(6.0, 12.01, 0.25))
            return np.repeat(nodes[np.arange(-(-n // bl)) % nodes.size], bl)[:n].astype(np.float64)

        def g_u(rng, n):
            u = rng.uniform(0, 1, n)
            if n > 4:
                u[:3] = [0.0, 1 - 2.0**-53, 5e-324]
            return u

        out.append(Stage("Taus.tau_energy(u)[energy scan]", lambda: Taus(cfg), lambda o, b, le, u: o.tau_energy(b, le, u), lambda rng, n: (rng.uniform(0.0017453292519943296, 0.7330382858376184, n), g_le_scan(rng, n), g_u(rng, n)), sizes=(17, 8193, 20000)))  # in-table angles only, so that the blocks stay aligned with the sampler's chunks
        for v in ("1", "2"):
            cv = NssConfig()
            cv.simulation.tau_shower.table_version = v
            out.append(Stage(f"Taus.tau_exit_prob[v{v}]", lambda cv=cv: Taus(cv), lambda o, b, le: o.tau_exit_prob(b, le), lambda rng, n: (g_angles(rng, n), g_le(rng, n)), sizes=(17, 8193)))
    if which == "decay":
        def g_dec(rng, n):
            g = 10 ** rng.uniform(3.3, 11.5, n) / 1.77686
            u = rng.uniform(0, 1, n)
            if n > 4:
                u[:4] = [0.0, 1.0, 5e-324, 1 - 2.0**-53]
            return rng.uniform(0, B42, n), np.sqrt(1 - 1 / g**2), g, u

        out.append(Stage("EAS.altDec(u)", lambda: EAS(cfg), lambda o, b, tb, tl, u: o.altDec(b, tb, tl, u), g_dec))
        out.append(Stage("EAS.altDec(internal generator)", lambda: EAS(cfg), lambda o, b, tb, tl: o.altDec(b, tb, tl), lambda rng, n: g_dec(rng, n)[:3], stub=0.61, sizes=(1, 2, 17, 8193)))
        cp = NssConfig()
        from nuspacesim.config import Simulation

        cp.simulation.spectrum = Simulation.PowerSpectrum(index=2.2, lower_bound=7.0, upper_bound=11.0)
        # Spectra takes a count, not arrays: the "events" are carried by a dummy array of length n
        out.append(Stage("Spectra[power law]", lambda: Spectra(cp), lambda o, d: (np.asarray(o(d.shape[0])[0]),), lambda rng, n: (np.zeros(n),), stub=0.42, sizes=(1, 2, 17, 8193)))
        out.append(Stage("Spectra[mono]", lambda: Spectra(cfg), lambda o, d: (np.asarray(o(d.shape[0])[0]),), lambda rng, n: (np.zeros(n),), sizes=(1, 2, 17)))
    if which == "optical":
        import dask

        def g_opt(rng, n):
            alt = rng.uniform(0, 20, n)
            r = rng.random(n)
            alt = np.where(r < 0.15, rng.choice([-1.0, 25.0, np.inf, 20.0000001], n), alt)
            if n > 3:
                alt[0], alt[-1] = 30.0, 5.0  # an out-of-range event first, an in-range one last
            return rng.uniform(0, B42, n), alt, 10 ** rng.uniform(-3, 3, n), rng.uniform(-1.5, 1.5, n), rng.uniform(-3, 3, n)

        def opt_call(o, b, a, e, la, lo):
            with dask.config.set(scheduler="synchronous"):
                return o(b, a, e, la, lo)

        out.append(Stage("EAS.__call__", lambda: EAS(cfg), opt_call, g_opt, sizes=(1, 2, 17, 101, 250)))
        cm = NssConfig()
        from nuspacesim.config import Simulation as S2
        from nuspacesim.simulation.atmosphere.clouds import CloudTopHeight

        cm.simulation.cloud_model = S2.PressureMapCloud(month=7)
        cloud = CloudTopHeight(cm)

        def opt_call_cloud(o, b, a, e, la, lo):
            with dask.config.set(scheduler="synchronous"):
                return o(b, a, e, la, lo, cloudf=cloud)

        out.append(Stage("EAS.__call__[pressure-map cloud]", lambda: EAS(cm), opt_call_cloud, g_opt, sizes=(17, 101)))

        def g_opt_faint(rng, n):
            # showers below the critical energy (the kernel has nothing to develop) mixed with ordinary
            # ones, every event at its own site
            b_, a_, e_, la_, lo_ = g_opt(rng, n)
            e_[rng.random(n) < 0.3] = 1e-10
            if n > 2:
                e_[1] = 5e-10
            return b_, a_, e_, la_, lo_

        out.append(Stage("EAS.__call__[pressure-map cloud, sub-critical showers]", lambda: EAS(cm), opt_call_cloud, g_opt_faint, sizes=(2, 17, 40)))

        def g_opt_inwin(rng, n):
            # every decay inside the altitude window (nothing for the stage to mask), longitudes in
            # the 0..360 deg convention
            return rng.uniform(0, B42, n), rng.uniform(0, 20, n), 10 ** rng.uniform(-3, 3, n), rng.uniform(-1.5, 1.5, n), rng.uniform(0, 2 * np.pi, n)

        out.append(Stage("EAS.__call__[pressure-map cloud, all in window, longitudes 0..2pi]", lambda: EAS(cm), opt_call_cloud, g_opt_inwin, sizes=(2, 17)))
    if which == "radio":
        def g_rad(rng, n):
            beta = rng.uniform(0.001, B42, n)
            g = 10 ** rng.uniform(5, 11, n) / 1.77686
            u = rng.uniform(0, 1, n)
            if n > 3:
                u[:3] = [1.0, 1 - 1e-12, 1e-9]
            alt, l = EAS(cfg).altDec(beta, np.sqrt(1 - 1 / g**2), g, u)
            return beta, np.asarray(alt), np.asarray(l), rng.uniform(0, 0.05, n), rng.uniform(1260, 2640, n), 10 ** rng.uniform(-2, 3, n)

        out.append(Stage("EASRadio.__call__", lambda: EASRadio(cfg), lambda o, b, a, l, th, pl, e: o(b, a, l, th, pl, e), g_rad, stub=0.3, sizes=(1, 2, 17, 8193)))
        c33 = NssConfig()
        c33.detector.initial_position.altitude = 33.0
        out.append(Stage("EASRadio.__call__[33 km, no ionosphere]", lambda: EASRadio(c33), lambda o, b, a, l, th, pl, e: o(b, a, l, th, pl, e), g_rad, stub=0.8, sizes=(2, 17, 1000)))
        out.append(Stage("calculate_snr", lambda: None, lambda o, ef: calculate_snr(ef, (30.0, 300.0), 525.0, 10, 1.8), lambda rng, n: (rng.normal(size=(n, 27)) * 1e-6,), sizes=(1, 2, 17, 8193)))
    return out


def plots_shard(ctx):
    """Every stage that takes plot=...: with all of its diagnostic plots requested (non-interactive
    backend) it returns bit for bit what it returns without, and leaves its input arrays alone."""
    import dask
    import matplotlib.pyplot as plt
    from nuspacesim.config import NssConfig, Simulation
    from nuspacesim.simulation.eas_optical.eas import EAS
    from nuspacesim.simulation.geometry.region_geometry import RegionGeom, RegionGeomToO
    from nuspacesim.simulation.spectra.spectra import Spectra
    from nuspacesim.simulation.taus.taus import Taus
    from nuspacesim.utils.plot_function_registry import registry

    inject.require_safe()
    rng = ctx.subrng("c11-plots")
    names = sorted(registry)
    cfg = NssConfig()
    cp = NssConfig()
    cp.simulation.spectrum = Simulation.PowerSpectrum(index=2.2, lower_bound=7.0, upper_bound=11.0)
    ct = NssConfig()
    ct.simulation.mode = "Target"
    n = 300
    b = rng.uniform(0.002, 0.7, n)
    le = rng.uniform(6.5, 11.5, n)
    ne = 24
    ev = (rng.uniform(0.02, 0.7, ne), rng.uniform(0, 12, ne), 10 ** rng.uniform(-1, 2, ne), rng.uniform(-1, 1, ne), rng.uniform(-3, 3, ne))
    cases = [
        ("RegionGeom.__call__", lambda: RegionGeom(cfg), lambda o, kw: o(400, **kw), ()),
        ("RegionGeomToO.__call__", lambda: RegionGeomToO(ct), lambda o, kw: o(600, **kw)[:3], ()),
        ("Spectra[mono]", lambda: Spectra(cfg), lambda o, kw: o(500, **kw), ()),
        ("Spectra[power law]", lambda: Spectra(cp), lambda o, kw: o(500, **kw), ()),
        ("Taus.__call__", lambda: Taus(cfg), lambda o, kw, b_, le_: o(b_, le_, **kw), (b, le)),
        ("EAS.__call__", lambda: EAS(cfg), lambda o, kw, *a: o(*a, **kw), ev),
    ]
    for name, make, call, arrs in cases:
        outs = []
        for kw in ({}, {"plot": names}):
            a_ = [x.copy() for x in arrs]
            a0 = [x.copy() for x in a_]
            np.random.seed(4242)
            try:
                with dask.config.set(scheduler="synchronous"), contextlib.redirect_stdout(io.StringIO()):
                    r = call(make(), kw, *a_)
            except Exception as e:
                ctx.exception("raises", f"{name}: raised with {'the diagnostic plots requested' if kw else 'no plot'}", e, {"stage": name, "plots": bool(kw)})
                outs = None
                break
            finally:
                plt.close("all")
            if any(x.tobytes() != y.tobytes() for x, y in zip(a_, a0)):
                j = [i for i, (x, y) in enumerate(zip(a_, a0)) if x.tobytes() != y.tobytes()][0]
                ctx.violation("immutable", f"{name}: input array #{j} was modified by the call{' with the diagnostic plots requested' if kw else ''}", {"stage": name, "argument": j, "plots": bool(kw)})
            outs.append(tuple(np.array(v, copy=True) for v in (r if isinstance(r, tuple) else (r,))))
        if outs is None:
            continue
        ctx.count("plots", 1)
        ctx.distinct.add(("plots", name))
        bad = [i for i, (p_, q_) in enumerate(zip(outs[0], outs[1])) if not eq(p_, q_)]
        if bad or len(outs[0]) != len(outs[1]):
            k = bad[0] if bad else 0
            ctx.violation("repeat", f"{name}: with the diagnostic plots {names} requested output #{k} differs from the call without plots: {first_diff(outs[1][k], outs[0][k]) if bad else 'number of outputs'}", {"stage": name, "output": k, "plots": names})


def shard(ctx, si, payload):
    if payload["which"] == "plots":
        plots_shard(ctx)
        return
    if payload["which"] in ("optical",):
        inject.require_safe()
    rng = ctx.subrng("c11", payload["which"])
    for st in stages(payload["which"]):
        if payload.get("small"):
            st.sizes = tuple(s for s in st.sizes if s <= payload["small"]) or st.sizes[:2]
        drive(ctx, st, rng, payload["nperm"], payload["nrep"])
        ctx.obs.setdefault("stages_driven", []).append(st.name)


def run(ctx):
    T = ctx.thorough()
    P = [{"which": w, "nperm": 4 if not T else 20, "nrep": 2 if not T else 5} for w in ("geom", "too", "tau", "decay", "optical", "radio", "plots")]
    if not T:
        for p in P:
            if p["which"] == "optical":
                p["small"] = 101
                p["nperm"] = 2
    core.run_shards(ctx, "nssmon.checks.c11", "shard", P, workers=len(P), timeout=ctx.pick(900, 5000))
    for m in ("permutation", "split", "repeat", "immutable", "single", "plots"):
        ctx.require(m)
    if len(ctx.obs.get("stages_driven", [])) < 17:
        ctx.inconclusive_because(f"only {len(ctx.obs.get('stages_driven', []))} of 17 stage adapters were driven")
    return ctx.finish(
        rule="20 stage adapters (geometry throw and positions, target-mode throw, exit probability for 3 table versions, tau energy with explicit u for scattered energies and for an energy scan in blocks, Taus.__call__, decay altitude with explicit and internal numbers, both spectra, optical signal with and without a pressure-map cloud, radio field for two detector altitudes, SNR) x batch sizes {1,2,17,8191,8192,8193,20000} (kernel stages {1,2,17,101,250}) x {repeat, seeded permutations through reused buffers and fresh arrays, all split points for n<=17 / seeded ones, single-event rows}; batches mix every mask class of each stage; a case is a distinct (stage, batch)",
        assumptions=["bit-for-bit comparison (numpy's vector and tail loops agree per element on this machine for the routines used)", "empty halves are not demanded (the pipeline never calls a stage with an empty batch)", "stages without an explicit-u parameter are driven with a constant RNG stub, so no draw order is assumed"],
    )
