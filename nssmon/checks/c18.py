"""C18 — gridded lookup tables: loss-free files, exact slicing, sound shipped data.

  roundtrip   NssGrid -> HDF5 / FITS -> NssGrid equals the original (values, dtype kind and
              width, axes, axis names) — judged by the harness, not by NssGrid.__eq__
  slice-node  grid_slice_interp at a node == the stored sub-grid, exactly
  slice-lerp  in between == (1-t) A + t B of the two neighbouring sub-grids (1e-12)
  row-interp  vec_1d_interp == piecewise-linear inverse on non-decreasing rows with plateaus
              (queries strictly inside the row range; on a plateau value the whole bracket)
  shipped     every shipped table: strictly increasing axes, CDF rows non-decreasing from 0 to
              1 (1e-15), exit probabilities <= 1, smallest reachable tau energy above the tau
              mass; the real reader returns exactly what h5py reads       (exhaustive)
"""
import os
import shutil
import tempfile

import numpy as np

from ..oracles import tables_ref as T

LEVEL = "exploration"
KF_V0 = "shipped:nuleptonsim-cdf-first-value"
KF_I8 = "grid-fits:int8-axis"
KF_F16 = "grid-fits:float16"
AXIS_INT_DTYPES = [np.int16, np.int32, np.int64, np.uint8, np.uint16]
DTYPES = [np.float32, np.float64, np.int16, np.int32, np.int64, np.uint8, np.uint16, np.int8, np.uint32]
ALPHA = list("abcdefghijklmnopqrstuvwxyzABCDEFGHIJKLMNOPQRSTUVWXYZ0123456789_+-.:'\"\\ ")


def gen_name(rng, used):
    for _ in range(100):
        k = int(rng.integers(1, 11))
        s = "".join(rng.choice(ALPHA, k))
        s = s.strip()
        if not s or s in (".", "..") or s in used:
            continue
        return s
    return f"axis{len(used)}"


def gen_grid(rng):
    nd = int(rng.integers(1, 5))
    shape = tuple(int(x) for x in rng.integers(1, 7, nd))
    dt = DTYPES[int(rng.integers(len(DTYPES)))]
    if np.issubdtype(dt, np.floating):
        data = (rng.normal(size=shape) * 10.0 ** rng.integers(-6, 7)).astype(dt)
        if rng.random() < 0.2:
            data.ravel()[0] = dt(0.0)
    else:
        info = np.iinfo(dt)
        data = rng.integers(info.min, info.max, size=shape, dtype=np.int64 if info.max <= np.iinfo(np.int64).max else np.uint64, endpoint=True).astype(dt)
    axes = []
    for n in shape:
        a = np.sort(rng.uniform(-10, 10, n)) if rng.random() < 0.7 else np.cumsum(rng.integers(1, 5, n)).astype(np.float64)
        r_ = rng.random()
        if r_ < 0.15:
            a = a.astype(np.float32)
        elif r_ < 0.3:
            # integer axes (strictly increasing whole numbers)
            adt = AXIS_INT_DTYPES[int(rng.integers(len(AXIS_INT_DTYPES)))]
            if rng.random() < 0.5:
                a = np.cumsum(rng.integers(1, 5, n)).astype(adt)
            else:
                # nodes anywhere in the dtype's range: neighbouring nodes further apart than the dtype's
                # positive range (D43: the spacing overflowed in the axis' own dtype)
                info = np.iinfo(adt)
                a = np.unique(np.concatenate([[info.min, info.max], rng.integers(info.min, info.max, n + 2, dtype=np.int64 if info.max <= np.iinfo(np.int64).max else np.uint64, endpoint=True)]).astype(adt))
                a = np.sort(rng.permutation(a)[:n]) if a.size >= n else np.cumsum(rng.integers(1, 5, n)).astype(adt)
        axes.append(a)
    names = []
    for i in range(nd):
        if i and rng.random() < 0.15:
            cand = names[0].swapcase()  # names differing only in case are distinct names
            names.append(cand if cand not in names and cand.strip() == cand else gen_name(rng, names))
        else:
            names.append(gen_name(rng, names))
    return data, axes, names


def same_array(a, b):
    a, b = np.asarray(a), np.asarray(b)
    return a.shape == b.shape and a.dtype.kind == b.dtype.kind and a.dtype.itemsize == b.dtype.itemsize and np.array_equal(a.astype(a.dtype.newbyteorder("=")), b.astype(b.dtype.newbyteorder("=")))


def run(ctx):
    from nuspacesim.utils.grid import NssGrid
    from nuspacesim.utils.interp import grid_slice_interp, vec_1d_interp

    rng = ctx.subrng("c18")
    work = tempfile.mkdtemp(prefix="c18_", dir=os.path.join(os.environ.get("NSSMON_ROOT", "."), ".work"))
    try:
        ngr = ctx.pick(300, 4000)
        # the open finding's fixed witness: an int8 axis through both formats
        for fmt, ext in (("hdf5", "h5"), ("fits", "fits")):
            f = os.path.join(work, f"i8.{ext}")
            ax8 = np.array([1, 2, 3], dtype=np.int8)
            ctx.count("roundtrip")
            try:
                NssGrid(np.array([10.0, 20.0, 30.0]), [ax8.copy()], ["x"]).write(f, format=fmt)
                r = NssGrid.read(f, format=fmt)
                if not same_array(r.axes[0], ax8):
                    back = np.asarray(r.axes[0])
                    key = KF_I8 if fmt == "fits" and back.dtype.kind == "b" else "roundtrip"
                    ctx.violation(key, f"{fmt} round trip of a grid with the int8 axis [1, 2, 3]: the axis reads back as {back.tolist()} ({back.dtype})", {"format": fmt, "axis_dtype": "int8"})
            except Exception as e:
                ctx.exception("roundtrip", f"{fmt} write/read of a grid with an int8 axis raised", e, {"format": fmt})
            finally:
                if os.path.exists(f):
                    os.remove(f)
        # a fresh file written with overwrite=False (the writer's exclusive-create mode) reads back equal too
        for fmt, ext in (("hdf5", "h5"), ("fits", "fits")):
            f = os.path.join(work, f"excl.{ext}")
            dE, aE = np.arange(12.0).reshape(3, 4), [np.array([1.0, 2.0, 4.0]), np.array([-1, 0, 5, 7], dtype=np.int32)]
            ctx.count("roundtrip")
            try:
                if os.path.exists(f):
                    os.remove(f)
                NssGrid(dE.copy(), [a.copy() for a in aE], ["e", "b c"]).write(f, format=fmt, overwrite=False)
                r = NssGrid.read(f, format=fmt)
                if not (same_array(r.data, dE) and all(same_array(x, y) for x, y in zip(r.axes, aE)) and list(r.axis_names) == ["e", "b c"]):
                    ctx.violation("roundtrip", f"{fmt}: a grid written to a fresh file with overwrite=False does not read back equal", {"format": fmt, "overwrite": False})
            except Exception as e:
                ctx.exception("roundtrip", f"{fmt}: write(overwrite=False) to a fresh file / read raised", e, {"format": fmt})
            finally:
                if os.path.exists(f):
                    os.remove(f)
        # second open finding's fixed witnesses: half precision through both formats (FITS has no 16-bit
        # float: data raises KeyError('float16'), an axis comes back as float32 with the same values)
        for fmt, ext in (("hdf5", "h5"), ("fits", "fits")):
            for what in ("data", "axis"):
                f = os.path.join(work, f"f16{what}.{ext}")
                d16 = np.array([10.0, 20.5, 30.25]).astype(np.float16 if what == "data" else np.float64)
                a16w = np.array([1.0, 2.5, 3.25]).astype(np.float16 if what == "axis" else np.float64)
                ctx.count("roundtrip")
                try:
                    NssGrid(d16.copy(), [a16w.copy()], ["x"]).write(f, format=fmt)
                    r = NssGrid.read(f, format=fmt)
                    if not (same_array(r.data, d16) and same_array(r.axes[0], a16w)):
                        back = np.asarray(r.axes[0] if what == "axis" else r.data)
                        widened = fmt == "fits" and what == "axis" and back.dtype.kind == "f" and back.dtype.itemsize == 4 and np.array_equal(back.astype(np.float64), a16w.astype(np.float64)) and same_array(r.data, d16)
                        ctx.violation(KF_F16 if widened else "roundtrip", f"{fmt} round trip of a grid with float16 {what}: reads back as {back.tolist()} ({back.dtype})", {"format": fmt, "float16": what})
                except KeyError as e:
                    ctx.violation(KF_F16 if (fmt == "fits" and what == "data" and "float16" in str(e)) else "roundtrip", f"{fmt} write of a grid with float16 {what} raised KeyError {e}", {"format": fmt, "float16": what})
                except Exception as e:
                    ctx.exception("roundtrip", f"{fmt} write/read of a grid with float16 {what} raised", e, {"format": fmt})
                finally:
                    if os.path.exists(f):
                        os.remove(f)
        for gi in range(ngr):
            data, axes, names = gen_grid(rng)
            try:
                g = NssGrid(data.copy(), [a.copy() for a in axes], list(names))
            except Exception as e:
                ctx.exception("raises", "constructing a valid grid raised", e, {"shape": data.shape, "names": names})
                continue
            for fmt, ext in (("hdf5", "h5"), ("fits", "fits")):
                f = os.path.join(work, f"g{gi}.{ext}")
                wit = {"format": fmt, "shape": list(data.shape), "dtype": str(data.dtype), "names": names}
                ctx.count("roundtrip")
                try:
                    g.write(f, format=fmt)
                    r = NssGrid.read(f, format=fmt)
                except Exception as e:
                    ctx.exception("roundtrip", f"{fmt} write/read of a {data.dtype} grid {data.shape} with axis names {names!r} raised", e, wit)
                    continue
                finally:
                    if os.path.exists(f):
                        os.remove(f)
                probs = []
                if not same_array(r.data, data):
                    probs.append(f"data differ (read back dtype {np.asarray(r.data).dtype}, shape {np.asarray(r.data).shape})")
                if list(r.axis_names) != list(names):
                    probs.append(f"axis names read back as {list(r.axis_names)!r}")
                if len(r.axes) != len(axes) or not all(same_array(x, y) for x, y in zip(r.axes, axes)):
                    probs.append("axes differ")
                if probs:
                    ctx.violation("roundtrip", f"{fmt} round trip of a {data.dtype} grid {data.shape} with axis names {names!r}: " + "; ".join(probs), wit)
                ctx.distinct.add((fmt, data.shape, str(data.dtype), tuple(names), data.tobytes()[:64]))
            if gi < 2:
                ctx.sample({"grid": {"shape": list(data.shape), "dtype": str(data.dtype), "axis_names": names, "axes": [a.tolist() for a in axes]}})
            # ---- file histories: overwrite an existing file with a different grid; several grids
            #      under different paths of one HDF5 file
            if gi % 4 == 0:
                d2, a2, n2 = gen_grid(rng)
                g2 = NssGrid(d2.copy(), [a.copy() for a in a2], list(n2))
                for fmt, ext in (("hdf5", "h5"), ("fits", "fits")):
                    f = os.path.join(work, f"ow{gi}.{ext}")
                    ctx.count("overwrite")
                    try:
                        g.write(f, format=fmt)
                        g2.write(f, format=fmt, overwrite=True)
                        r = NssGrid.read(f, format=fmt)
                        if not (same_array(r.data, d2) and list(r.axis_names) == list(n2) and len(r.axes) == len(a2) and all(same_array(x, y) for x, y in zip(r.axes, a2))):
                            ctx.violation("roundtrip", f"{fmt}: after overwriting a {data.shape} grid {names!r} with a {d2.shape} grid {n2!r} the file reads back as shape {np.asarray(r.data).shape}, names {list(r.axis_names)!r}", {"format": fmt, "first": [list(data.shape), names], "second": [list(d2.shape), n2]})
                    except Exception as e:
                        ctx.exception("roundtrip", f"{fmt}: overwriting an existing grid file (overwrite=True) raised", e, {"format": fmt})
                    finally:
                        if os.path.exists(f):
                            os.remove(f)
                f = os.path.join(work, f"mp{gi}.h5")
                ctx.count("multipath")
                try:
                    g.write(f, format="hdf5", path="/first")
                    g2.write(f, format="hdf5", path="/second/nested")
                    r1 = NssGrid.read(f, format="hdf5", path="/first")
                    r2 = NssGrid.read(f, format="hdf5", path="/second/nested")
                    ok1 = same_array(r1.data, data) and list(r1.axis_names) == list(names) and all(same_array(x, y) for x, y in zip(r1.axes, axes))
                    ok2 = same_array(r2.data, d2) and list(r2.axis_names) == list(n2) and all(same_array(x, y) for x, y in zip(r2.axes, a2))
                    if not (ok1 and ok2):
                        ctx.violation("roundtrip", f"hdf5: two grids written under different paths of one file do not both read back ({'first' if not ok1 else 'second'} differs)", {"first": [list(data.shape), names], "second": [list(d2.shape), n2]})
                except Exception as e:
                    ctx.exception("roundtrip", "hdf5: writing / reading two grids under different paths of one file raised", e, {})
                finally:
                    if os.path.exists(f):
                        os.remove(f)
            # ---- slicing on this grid, and on the same grid with half-precision axes (FITS cannot carry
            #      those, so they are not part of the file round trips)
            variants = [(g, axes)]
            a16 = [np.asarray(a, dtype=np.float64).astype(np.float16) for a in axes]
            if all(np.all(np.isfinite(a)) and (a.size < 2 or np.all(np.diff(a.astype(np.float64)) > 0)) for a in a16):
                variants.append((NssGrid(data.copy(), a16, list(names)), a16))
            for g_s, axes_s in variants:
                for ax_i in range(data.ndim):
                    n = data.shape[ax_i]
                    if n < 2 or np.any(np.diff(axes_s[ax_i]) <= 0):
                        continue
                    for by_name in (False, True):
                        key = names[ax_i] if by_name else ax_i
                        for k in range(n):
                          for as_python in (False, True):
                            ctx.count("slice-node")
                            try:
                                node = axes_s[ax_i][k]
                                if as_python:  # the node's value as a plain Python number
                                    node = int(node) if np.issubdtype(axes_s[ax_i].dtype, np.integer) else float(node)
                                s = grid_slice_interp(g_s, node, key)
                                want = np.take(data, k, axis=ax_i)
                                ok = np.array_equal(np.asarray(s.data, dtype=np.float64), want.astype(np.float64))
                                names_ok = list(s.axis_names) == [nm for i, nm in enumerate(names) if i != ax_i]
                                axes_ok = all(same_array(x, y) for x, y in zip(s.axes, [a for i, a in enumerate(axes_s) if i != ax_i]))
                                if not (ok and names_ok and axes_ok):
                                    ctx.violation("slice-node", f"slice of a {data.dtype} grid {data.shape} along axis {key!r} at node {axes_s[ax_i][k]!r}: " + ("values differ from the stored sub-grid" if not ok else "remaining axes/names wrong"), {"shape": list(data.shape), "axis": ax_i, "node": k, "by_name": by_name})
                            except Exception as e:
                                ctx.exception("slice-node", f"slice along axis {key!r} at node {k} raised", e, {"shape": list(data.shape), "axis": ax_i, "names": names})
                        # two coordinates anywhere between nodes and three close to (not on) a node: within
                        # 1e-6 / 1e-9 of the bracket, where a tolerance-based "is it a node?" test would snap
                        for t_fixed in (None, None, 1e-6, 1.0 - 1e-6, 1e-9):
                            k = int(rng.integers(0, n - 1))
                            t = float(rng.uniform(0, 1)) if t_fixed is None else t_fixed
                            x = float(axes_s[ax_i][k]) + t * (float(axes_s[ax_i][k + 1]) - float(axes_s[ax_i][k]))  # in double: the axis' own dtype overflows (D43)
                            x = float(min(max(x, axes_s[ax_i][k]), axes_s[ax_i][k + 1]))
                            tt = (x - float(axes_s[ax_i][k])) / (float(axes_s[ax_i][k + 1]) - float(axes_s[ax_i][k]))
                            A = np.take(data, k, axis=ax_i).astype(np.float64)
                            B = np.take(data, k + 1, axis=ax_i).astype(np.float64)
                            want = A + tt * (B - A)
                            ctx.count("slice-lerp")
                            try:
                                s = np.asarray(grid_slice_interp(g_s, x, key).data, dtype=np.float64)
                                tol = 1e-12 * np.maximum(np.maximum(np.abs(A), np.abs(B)), 1e-300) + (4e-7 * np.maximum(np.abs(A), np.abs(B)) if data.dtype == np.float32 or axes_s[ax_i].dtype == np.float32 else 0)
                                if s.shape != want.shape or not np.all(np.abs(s - want) <= tol):
                                    ctx.violation("slice-lerp", f"slice of a {data.dtype} grid {data.shape} along axis {key!r} at {x!r} (between nodes {k},{k+1}) is not the linear blend of the neighbouring sub-grids (max deviation {np.max(np.abs(s - want)) if s.shape == want.shape else 'shape'})", {"shape": list(data.shape), "axis": ax_i, "x": x})
                            except Exception as e:
                                ctx.exception("slice-lerp", f"slice along axis {key!r} at interior coordinate raised", e, {"shape": list(data.shape), "axis": ax_i})

            # ---- the slice follows the grid's *current* data: tables are edited in place by their users
            #      (Taus lifts the non-positive exit probabilities), a slice taken afterwards is the stored
            #      sub-grid as it is now (seeded C18-15: interpolator cached at the first slice)
            if data.ndim >= 1 and data.shape[0] >= 2 and not np.any(np.diff(axes[0]) <= 0):
                try:
                    g2 = NssGrid(data.copy(), [a.copy() for a in axes], list(names))
                    grid_slice_interp(g2, axes[0][0], 0)
                    newdata = data[::-1].copy() if data.ndim else data
                    np.asarray(g2.data)[...] = newdata
                    ctx.count("slice-history")
                    for k in (0, data.shape[0] - 1):
                        got = np.asarray(grid_slice_interp(g2, axes[0][k], 0).data, dtype=np.float64)
                        want = np.take(newdata, k, axis=0).astype(np.float64)
                        if not np.array_equal(got, want):
                            ctx.violation("slice-history", f"a {data.dtype} grid {data.shape} sliced, edited in place and sliced again at node {k} of axis 0: the slice is not the stored sub-grid", {"shape": list(data.shape)})
                            break
                except Exception as e:
                    ctx.exception("slice-history", "slice / edit in place / slice raised", e, {"shape": list(data.shape)})

        # ---------------- row-wise interpolation -----------------------------------------------
        nrows = ctx.pick(20_000, 600_000)
        done = 0
        while done < nrows:
            R = int(min(4000, nrows - done))
            m = int(rng.integers(3, 40))
            steps = rng.exponential(1.0, (R, m))
            steps[rng.random((R, m)) < 0.35] = 0.0  # plateaus
            # steps of every scale: neighbouring nodes that differ by 1e-17 .. 1e-6 are distinct nodes
            tiny = rng.random((R, m)) < 0.15
            steps[tiny] = 10.0 ** rng.uniform(-17, -6, int(tiny.sum()))
            steps[:, 0] = 0.0
            xs = np.cumsum(steps, axis=1)
            if rng.random() < 0.5:
                tot = xs[:, -1:]
                xs = np.where(tot > 0, xs / np.where(tot > 0, tot, 1), xs)  # CDF-like rows 0..1
            ys = np.sort(rng.uniform(0, 1, m)) if rng.random() < 0.5 else np.logspace(-7, 0, m)
            span = xs[:, -1] > xs[:, 0]
            xs = xs[span]
            R = xs.shape[0]
            if R == 0:
                continue
            lo, hi = xs[:, 0], xs[:, -1]
            q = lo + rng.uniform(0, 1, R) * (hi - lo)
            pick = rng.random(R) < 0.25  # exact node values (plateau / non-plateau)
            q = np.where(pick, xs[np.arange(R), rng.integers(1, m - 1, R)], q)
            # a quarter of the queries sit in the middle of a randomly chosen bracket (whatever its width)
            jb = rng.integers(0, m - 1, R)
            mid = 0.5 * (xs[np.arange(R), jb] + xs[np.arange(R), jb + 1])
            q = np.where(rng.random(R) < 0.25, mid, q)
            # the closed range: a query exactly on the first / last node is inside the row
            ends = rng.random(R)
            q = np.where(ends < 0.04, lo, np.where(ends > 0.96, hi, q))
            inside = (q >= lo) & (q <= hi)
            xs, q = xs[inside], q[inside]
            R = xs.shape[0]
            if R == 0:
                continue
            try:
                got = vec_1d_interp(xs, ys, q)
            except Exception as e:
                ctx.exception("row-interp", f"vec_1d_interp raised on {R} non-decreasing rows of {m} nodes with queries inside the row's closed range", e, {"rows": R, "nodes": m})
                done += R
                continue
            z, zlo, zhi = T.invert_rows(xs, ys, q)
            ctx.count("row-interp", R)
            tol = 1e-12 * np.maximum(np.abs(zhi), 1e-300) + 1e-15
            # conditioning of (q - x0) / (x1 - x0) in a narrow bracket: a few ulps of x over its width
            jr = np.clip((xs <= q[:, None]).sum(axis=1) - 1, 0, m - 2)
            x0, x1 = xs[np.arange(R), jr], xs[np.arange(R), jr + 1]
            dy = ys[jr + 1] - ys[jr]
            with np.errstate(divide="ignore", invalid="ignore"):
                cond = np.where(x1 > x0, np.minimum(1.0, 8 * 2.0**-52 * np.maximum(np.abs(x1), 1e-300) / (x1 - x0)), 0.0) * dy
            tol = tol + cond
            ctx.obs["row_interp_narrow_brackets_judged"] = ctx.obs.get("row_interp_narrow_brackets_judged", 0) + int(((x1 - x0 > 0) & (x1 - x0 < 1e-8) & (cond < 0.01 * dy)).sum())
            ok = (got >= zlo - tol) & (got <= zhi + tol)
            if got.shape != z.shape or not np.all(ok):
                i = int(np.flatnonzero(~ok)[0]) if got.shape == z.shape else 0
                ctx.violation("row-interp", f"vec_1d_interp row {i}: query {q[i]!r} in row {xs[i].tolist()[:8]}... gives {got[i] if got.shape == z.shape else got.shape!r}, piecewise-linear interpolation gives [{zlo[i]!r}, {zhi[i]!r}] ({int((~ok).sum()) if got.shape == z.shape else 'shape mismatch'} rows)", {"row": xs[i].tolist(), "ys": ys.tolist(), "q": float(q[i])})
            ctx.distinct.add_rows(q, xs[:, 1], xs[:, -1])
            done += R

        # ---------------- shipped tables, exhaustively -----------------------------------------
        dd = T.data_dir()
        nfiles = 0
        for sub, versions in (("nupyprop_tables", ("1", "2", "3")), ("nuleptonsim_tables", ("0",))):
            for v in versions:
                for kind in ("cdf", "pexit"):
                    p = os.path.join(dd, sub, f"nu2tau_{kind}.{v}.h5")
                    if not os.path.exists(p):
                        continue
                    judged = sub == "nupyprop_tables"  # version 0 cannot be selected by the pipeline
                    tag = f"{sub}/nu2tau_{kind}.{v}.h5"
                    try:
                        g = NssGrid.read(p, path="/", format="hdf5")
                        raw, raxes, rnames = T.read_h5_grid(p)
                    except Exception as e:
                        if judged:
                            ctx.exception("shipped", f"{tag}: reading raised", e, {"file": tag})
                        continue
                    nfiles += 1
                    ctx.count("shipped", int(raw.size))
                    problems = []
                    if not (same_array(g.data, raw) and list(g.axis_names) == rnames and all(same_array(a, b) for a, b in zip(g.axes, raxes))):
                        problems.append("NssGrid.read differs from the raw HDF5 content")
                    for nm, a in zip(rnames, raxes):
                        if not np.all(np.diff(a) > 0):
                            problems.append(f"axis {nm} not strictly increasing")
                    if kind == "cdf":
                        if not np.all(np.diff(raw, axis=-1) >= 0):
                            problems.append("a CDF row decreases")
                        if not np.all(raw[..., 0] == 0):
                            problems.append("a CDF row does not start at 0")
                        if not np.all(np.abs(raw[..., -1] - 1.0) <= 1e-15):
                            problems.append(f"a CDF row ends {np.max(np.abs(raw[..., -1] - 1.0)):.2e} from 1")
                        fp = np.argmax(raw > 0, axis=-1)
                        z = raxes[rnames.index("e_tau_frac")]
                        E = raxes[rnames.index("log_e_nu")]
                        emin = z[fp] * 10.0 ** E[:, None]
                        ctx.observe(f"{tag}_smallest_positive_cdf_energy_GeV", float(emin.min()))
                        if not np.all(emin > T.TAU_MASS):
                            problems.append("smallest reachable tau energy not above the tau mass")
                    else:
                        if not np.all(raw <= 1.0):
                            problems.append("an exit probability exceeds 1")
                    if problems:
                        if judged:
                            ctx.violation("shipped", f"{tag}: " + "; ".join(problems), {"file": tag})
                        elif problems == ["a CDF row does not start at 0"]:
                            # package data that no sampler opens (Taus reads nupyprop_tables only): open finding
                            nbad = int(np.sum(raw[..., 0] != 0))
                            ctx.violation(KF_V0, f"{tag}: {nbad} of {raw[..., 0].size} CDF rows do not start at 0 (first values up to {float(raw[..., 0].max())!r})", {"file": tag})
                        else:
                            ctx.violation("shipped", f"{tag}: " + "; ".join(problems), {"file": tag})
        ctx.observe("shipped_table_files_scanned", nfiles)
        ctx.exhaustive_subspaces.append("every node of every shipped nu2tau_cdf / nu2tau_pexit table (versions 0-3)")
    finally:
        shutil.rmtree(work, ignore_errors=True)
    if ctx.thorough():
        from .. import repotests

        repotests.run(ctx, "C18")
    for m in ("roundtrip", "overwrite", "multipath", "slice-node", "slice-history", "slice-lerp", "row-interp", "shipped"):
        ctx.require(m)
    return ctx.finish(
        rule="random grids (1-4 dimensions, axis lengths 1-6, 9 float/int dtypes, axis names of 1-10 printable ASCII characters incl. internal spaces, quotes, backslashes and names differing only in case) written/read in both formats; slices at every node of every axis (by index and by name) and at 2 interior coordinates; non-decreasing rows with 35 % plateau steps, queries strictly inside the range incl. exact node values; a case is a distinct grid or (row, query)",
        assumptions=["axis names without '/', leading/trailing blanks, '.'/'..' and non-ASCII (HDF5 path syntax / FITS string rules: what both formats can carry)", "slicing along an axis of length 1 is not exercised (degenerate range)", "the version-0 nuleptonsim tables (package data no sampler opens) are judged like the others; their CDF rows that start above 0 are the open finding shipped:nuleptonsim-cdf-first-value", "an int8 axis cannot be carried by the FITS writer (astropy stores it as a logical column): open finding grid-fits:int8-axis, fixed witness"],
    )
