"""C15 — configuration survives the TOML round trip and units are honoured.

  roundtrip  config_from_toml(create_toml(c)) == c, walked field by field over the pydantic
             model tree (angle fields: relative 4 x 2^-52 for the degree/radian text
             conversion; everything else exact), every spectrum and cloud variant, hostile
             strings and floats
  units      a quantity in any compatible unit (string or Quantity) is stored as
             Quantity(value, unit_object).to(canonical).value — a different route from the code's
             string parse; a bare number is taken as canonical; incompatible units are rejected
             (compatibility is decided by the harness route itself)
  band       an inverted or empty frequency band is rejected however it is specified
  month      1..12, names and abbreviations in any case, zero-padded strings, datetimes accepted;
             0, 13, negative, unparseable rejected
  cli        `nuspacesim create-config` writes a file that loads into the expected configuration
"""
import math
import os
import shutil
import tempfile
from datetime import datetime

import numpy as np

LEVEL = "exploration"
ANGLE_FIELDS = {"latitude", "longitude", "sun_alt_cut", "moon_alt_cut", "moon_min_phase_angle_cut", "source_RA", "source_DEC", "max_cherenkov_angle", "max_azimuth_angle", "angle_from_limb"}
ATOL = 4 * 2.0**-52


KF_NONE = "toml:none-section"


def walk(a, b, path=""):
    """Yield (path, va, vb, field_name) for every leaf of two pydantic models of the same shape."""
    from pydantic import BaseModel

    if type(a) is not type(b):
        yield path, f"<{type(a).__name__}>", f"<{type(b).__name__}>", "__type__"
        return
    for name in type(a).model_fields:
        va, vb = getattr(a, name), getattr(b, name)
        p = f"{path}.{name}" if path else name
        if isinstance(va, BaseModel) or isinstance(vb, BaseModel):
            if isinstance(va, BaseModel) and isinstance(vb, BaseModel):
                yield from walk(va, vb, p)
            else:
                yield p, va, vb, name
        else:
            yield p, va, vb, name


def raw(m):
    from pydantic import BaseModel

    return {k: (raw(getattr(m, k)) if isinstance(getattr(m, k), BaseModel) else getattr(m, k)) for k in type(m).model_fields}


def leaf_equal(va, vb, name):
    if isinstance(va, float) and isinstance(vb, (float, int)) and not isinstance(vb, bool):
        vb = float(vb)
        if va == vb:
            return math.copysign(1, va) == math.copysign(1, vb) or name in ANGLE_FIELDS
        if name in ANGLE_FIELDS and math.isfinite(va):
            return abs(va - vb) <= ATOL * abs(va)
        return False
    if isinstance(va, (int, float)) and isinstance(vb, (int, float)) and not isinstance(va, bool) and not isinstance(vb, bool):
        return va == vb  # a float field whose class default is the int literal 10 reads back as 10.0
    return type(va) is type(vb) and va == vb


HOSTILE_STR = ["", " ", "plain", 'with "double" quotes', "single 'quotes'", "back\\slash \\n \\t \\u1234", "tab\there", "new\nline", "control\x01\x1f\x7f", "unicode é ñ 日本語 🚀  ", "# not a comment", "[table]", "a = 1", "'''", '"""', "trailing space ", "\\", "key.with.dots", "0", "true", "1979-05-27T07:32:00Z", "windows\r\nline ends\r\n", "lone\rreturn", "\nleading newline", "two\n\nblank lines \\\n continued", "quote at end\""]
FLOATS = [0.0, -0.0, 1.0, -1.0, 0.1, 0.30000000000000004, 1e-300, 1e300, 5e-324, 1.7976931348623157e308, 123456789.12345679, 1e-7, 2.0**-52, 1 / 3]


def gen_config(rng, i):
    from nuspacesim.config import NssConfig, Simulation

    c = NssConfig()
    f = lambda: float(rng.choice(FLOATS)) if rng.random() < 0.4 else float(rng.normal() * 10.0 ** rng.integers(-8, 9))
    pos = lambda: abs(f())

    def ang():
        # angles go through a radian -> degree -> radian text conversion: magnitudes whose degree
        # value overflows (> 3e306 rad) or is denormal (< 1e-306 rad) cannot keep 1-ulp accuracy
        x = f()
        return x if (x == 0 or 1e-290 <= abs(x) <= 1e290) else math.copysign(1.0, x) * 0.7

    c.title = str(rng.choice(HOSTILE_STR)) if rng.random() < 0.7 else "t" + str(i)
    c.detector.name = HOSTILE_STR[i % len(HOSTILE_STR)]
    ip = c.detector.initial_position
    ip.altitude, ip.latitude, ip.longitude = pos(), ang(), ang()
    sm = c.detector.sun_moon
    sm.sun_moon_cuts = bool(rng.random() < 0.5)
    sm.sun_alt_cut, sm.moon_alt_cut, sm.moon_min_phase_angle_cut = ang(), ang(), ang()
    o = c.detector.optical
    o.enable = bool(rng.random() < 0.5)
    o.telescope_effective_area, o.quantum_efficiency, o.photo_electron_threshold = pos(), pos(), pos()
    r = c.detector.radio
    r.enable = bool(rng.random() < 0.5)
    lo = float(rng.choice([0.0, 30.0, 1e-3, 299.99999, 1e6, pos()]))
    r.low_frequency = lo
    r.high_frequency = float(np.nextafter(lo, math.inf)) if rng.random() < 0.2 else lo + abs(f()) + 1e-300 if lo + abs(f()) + 1e-300 > lo else lo * 2 + 1
    if not r.high_frequency > r.low_frequency:
        r.high_frequency = r.low_frequency + 1.0
    r.snr_threshold, r.gain = f(), f()
    r.nantennas = int(rng.choice([1, 10, 2**31 - 1, 0, 7]))
    s = c.simulation
    s.mode = str(rng.choice(["Diffuse", "Target"]))
    s.thrown_events = int(rng.choice([0, 1, 1000, 10**9, 2**53]))
    s.max_cherenkov_angle, s.max_azimuth_angle, s.angle_from_limb = ang(), ang(), ang()
    s.ionosphere.enable = bool(rng.random() < 0.5)
    s.ionosphere.total_electron_content, s.ionosphere.total_electron_error = f(), f()
    s.tau_shower.etau_frac = pos()
    s.tau_shower.table_version = str(rng.choice(["1", "2", "3", "0", "x y", '"']))
    k = i % 5
    if k == 0:
        s.spectrum = Simulation.MonoSpectrum(log_nu_energy=f())
    elif k in (1, 2):
        s.spectrum = Simulation.PowerSpectrum(index=f(), lower_bound=f(), upper_bound=f())
    if i % 4 == 1:
        s.cloud_model = Simulation.MonoCloud(altitude=float(rng.choice([-math.inf, math.inf, 0.0, -0.0, f()])))
    elif i % 4 == 2:
        s.cloud_model = Simulation.PressureMapCloud(month=int(rng.integers(1, 13)), version=[0, "0", "v1", 3][i % 4])
    elif i % 4 == 3:
        s.cloud_model = Simulation.MonoCloud()
    t = s.target
    t.source_RA, t.source_DEC = ang(), ang()
    t.source_date = str(rng.choice(["2022-06-02T01:00:00", "2030-12-31T23:59:59.999", HOSTILE_STR[(i * 7) % len(HOSTILE_STR)]]))
    t.source_date_format = str(rng.choice(["isot", "iso", "jd"]))
    t.source_obst = pos()
    return c


UNIT_SPELLINGS = {
    "km": ["km", "m", "cm", "mm", "Mm", "AU", "pc", "lyr", "kpc", "um", "earthRad", "imperial.mi" if False else "nm"],
    "rad": ["rad", "deg", "arcmin", "arcsec", "mas", "hourangle", "cycle", "urad", "mrad", "uas"],
    "m2": ["m2", "cm2", "km2", "m^2", "m**2", "barn", "mm2", "cm^2", "m m"],
    "MHz": ["MHz", "Hz", "kHz", "GHz", "THz", "1/s", "s^-1", "1/us", "mHz"],
    "dB": ["dB", "dex", "mag"],
}
INCOMPATIBLE = {"km": ["s", "deg", "kg", "MHz", "m2", "dB"], "rad": ["km", "s", "m2", "MHz"], "m2": ["m", "s", "rad", "km"], "MHz": ["m", "km", "deg", "J"], "dB": ["m", "s", "deg"]}


def unit_fields():
    """(constructor, field, canonical key, sample canonical-positive?)"""
    from nuspacesim.config import Detector, Simulation

    return [
        (Detector.InitialPos, "altitude", "km"),
        (Detector.InitialPos, "latitude", "rad"),
        (Detector.InitialPos, "longitude", "rad"),
        (Detector.SunMoon, "sun_alt_cut", "rad"),
        (Detector.SunMoon, "moon_alt_cut", "rad"),
        (Detector.SunMoon, "moon_min_phase_angle_cut", "rad"),
        (Detector.Optical, "telescope_effective_area", "m2"),
        (Detector.Radio, "gain", "dB"),
        (Simulation, "max_cherenkov_angle", "rad"),
        (Simulation, "max_azimuth_angle", "rad"),
        (Simulation, "angle_from_limb", "rad"),
        (Simulation.TargetOfOpportunity, "source_RA", "rad"),
        (Simulation.TargetOfOpportunity, "source_DEC", "rad"),
    ]


def run(ctx):
    import astropy.units as u
    from astropy.units import Quantity
    from click.testing import CliRunner
    from nuspacesim.apps.cli import cli
    from nuspacesim.config import Detector, NssConfig, Simulation, config_from_toml, create_toml

    rng = ctx.subrng("c15")
    work = tempfile.mkdtemp(prefix="c15_", dir=os.path.join(os.environ.get("NSSMON_ROOT", "."), ".work"))
    canon = {"km": u.km, "rad": u.rad, "m2": u.m**2, "MHz": u.MHz, "dB": u.dB}
    try:
        # ---------------- round trip -----------------------------------------------------------
        ncfg = ctx.pick(500, 12000)
        for i in range(ncfg):
            try:
                c = gen_config(rng, i)
                # validate the generated object from its *raw* attribute values (bare numbers are
                # canonical), not through model_dump(): the serialisers are part of what is under test
                c = NssConfig(**raw(c))
            except Exception:
                ctx.count("generated-invalid")
                continue
            p = os.path.join(work, f"c{i % 8}.toml")
            ctx.count("roundtrip")
            try:
                create_toml(p, c)
                c2 = config_from_toml(p)
            except Exception as e:
                ctx.exception("roundtrip", f"TOML round trip of a valid configuration raised (title {c.title!r}, name {c.detector.name!r}, spectrum {c.simulation.spectrum.id}, cloud {c.simulation.cloud_model.id})", e, {"i": i, "dump": c.model_dump()})
                continue
            diffs = [(pth, va, vb) for pth, va, vb, nm in walk(c, c2) if not leaf_equal(va, vb, nm)]
            if diffs:
                pth, va, vb = diffs[0]
                ctx.violation("roundtrip", f"field {pth}: {va!r} was read back as {vb!r} ({len(diffs)} fields differ; spectrum {c.simulation.spectrum.id}, cloud {c.simulation.cloud_model.id})", {"i": i, "field": pth, "before": repr(va), "after": repr(vb)})
            ctx.distinct.add(("rt", repr(c.model_dump())[:4000]))
            if i < 2:
                ctx.sample({"roundtrip_config": c.model_dump()})
        # ---------------- Optional sections set to None (valid configurations) --------------------
        for path in ("detector.sun_moon", "detector.optical", "detector.radio", "simulation.ionosphere", "simulation.target"):
            sec, fld = path.split(".")
            for variant in range(2):
                c = NssConfig()
                if variant:
                    c.simulation.spectrum = Simulation.PowerSpectrum(index=2.0, lower_bound=7.0, upper_bound=11.0)
                setattr(getattr(c, sec), fld, None)
                try:
                    c = NssConfig(**raw(c))
                except Exception:
                    ctx.count("generated-invalid")
                    continue
                ctx.count("none-section")
                p = os.path.join(work, "none.toml")
                wit = {"section": path, "variant": variant}
                try:
                    create_toml(p, c)
                except TypeError as e:
                    if "NoneType" in str(e) and "TOML serializable" in str(e):
                        ctx.violation(KF_NONE, f"a valid configuration with {path} = None cannot be written: create_toml raises TypeError: {e}", wit)
                    else:
                        ctx.exception("roundtrip", f"create_toml of a valid configuration with {path} = None raised", e, wit)
                    continue
                except Exception as e:
                    ctx.exception("roundtrip", f"create_toml of a valid configuration with {path} = None raised", e, wit)
                    continue
                try:
                    c2 = config_from_toml(p)
                except Exception as e:
                    ctx.exception("roundtrip", f"reading back a configuration with {path} = None raised", e, wit)
                    continue
                back = getattr(getattr(c2, sec), fld)
                if back is not None:
                    ctx.violation("roundtrip", f"{path} = None was read back as {back!r}", wit)
                diffs = [(pth, va, vb) for pth, va, vb, nm in walk(c, c2) if not leaf_equal(va, vb, nm)]
                if diffs:
                    ctx.violation("roundtrip", f"configuration with {path} = None: field {diffs[0][0]}: {diffs[0][1]!r} was read back as {diffs[0][2]!r}", wit)
        # ---------------- units ------------------------------------------------------------------
        fields = unit_fields() + [(Detector.Radio, "low_frequency", "MHz"), (Detector.Radio, "high_frequency", "MHz")]
        vals = [0.0, 1.0, 2.5, 1e-9, 12345.678, 0.30000000000000004, -3.25]
        for cls, field, key in fields:
            cu = canon[key]
            for sp in UNIT_SPELLINGS[key]:
                try:
                    uo = u.Unit(sp)
                except Exception:
                    continue
                for v in vals if ctx.thorough() else vals[:5]:
                    if key in ("km", "m2", "MHz") and v < 0:
                        continue
                    try:
                        want = Quantity(v, uo).to(cu).value
                        compatible = True
                    except Exception:
                        compatible = False
                    for form, given in (("string", f"{v!r} {sp}"), ("quantity", Quantity(v, uo))):
                        kw = {field: given}
                        if field == "low_frequency":
                            kw["high_frequency"] = 1e30
                        if field == "high_frequency":
                            kw["low_frequency"] = -1e30
                        ctx.count("units")
                        try:
                            obj = cls(**kw)
                            got = getattr(obj, field)
                        except Exception as e:
                            if compatible and form == "quantity":
                                ctx.exception("units", f"{cls.__name__}.{field} = {given!r} ({form}) rejected although astropy converts it to {cu}", e, {"field": field, "given": repr(given)})
                            elif compatible:
                                # a spelling astropy's string parser does not accept is not the code's fault
                                try:
                                    Quantity(given)
                                    ctx.exception("units", f"{cls.__name__}.{field} = {given!r} (string) rejected although astropy parses and converts it", e, {"field": field, "given": given})
                                except Exception:
                                    ctx.count("units-unparseable-spelling")
                            continue
                        if not compatible:
                            ctx.violation("units", f"{cls.__name__}.{field} = {given!r} accepted (stored {got!r}) although the unit is not convertible to {cu}", {"field": field, "given": repr(given)})
                        elif not (got == want or abs(got - want) <= 2 * 2.0**-52 * abs(want)):
                            ctx.violation("units", f"{cls.__name__}.{field} = {given!r} ({form}) stored as {got!r}; astropy's conversion of Quantity({v!r}, {sp}) to {cu} gives {want!r}", {"field": field, "given": repr(given)})
                        ctx.distinct.add(("unit", cls.__name__, field, sp, v, form))
            for bad in INCOMPATIBLE[key]:
                for form, given in (("string", f"5.0 {bad}"), ("quantity", Quantity(5.0, u.Unit(bad)))):
                    kw = {field: given}
                    if field == "low_frequency":
                        kw["high_frequency"] = 1e30
                    ctx.count("units-rejected")
                    try:
                        obj = cls(**kw)
                        ctx.violation("units", f"{cls.__name__}.{field} = {given!r} accepted (stored {getattr(obj, field)!r}) although {bad} is not a unit of {cu.physical_type}", {"field": field, "given": repr(given)})
                    except Exception:
                        pass
            # the same text that a compatible field has just accepted must still be rejected here
            # (a parse memo keyed on the text alone would hand back the other field's value)
            for k2, sps in UNIT_SPELLINGS.items():
                if k2 == key or canon[k2].physical_type == cu.physical_type:
                    continue
                prim = [f for f in fields if f[2] == k2]
                for sp2 in sps[:3]:
                    for val in ("5.0", "10.0", "150.0"):
                        text = f"{val} {sp2}"
                        pc, pf, _ = prim[0]
                        pkw = {pf: text}
                        if pf == "low_frequency":
                            pkw["high_frequency"] = 1e30
                        try:
                            pc(**pkw)  # priming: accepted where it is compatible
                        except Exception:
                            continue
                        try:
                            if Quantity(text).unit.is_equivalent(cu):
                                continue
                        except Exception:
                            continue
                        kw = {field: text}
                        if field == "low_frequency":
                            kw["high_frequency"] = 1e30
                        if field == "high_frequency":
                            kw["low_frequency"] = -1e30
                        ctx.count("units-rejected-after-accept")
                        try:
                            obj = cls(**kw)
                            ctx.violation("units", f"{cls.__name__}.{field} = {text!r} accepted (stored {getattr(obj, field)!r}) right after {pc.__name__}.{pf} accepted the same text: not a unit of {cu.physical_type}", {"field": field, "given": text, "after": f"{pc.__name__}.{pf}"})
                        except Exception:
                            pass
            # bare numbers
            # (numbers of every numeric type a user's arrays and loops produce: np.arange gives np.int64,
            #  a table column np.float32, ...)
            for v in (0.0, 1.5, -2.25, 1e-12, 7, np.int64(35), np.int32(40), np.float32(45.5), np.float64(51.25), np.arange(5, 80, 15)[3], True + 54):
                if key in ("MHz",) and field == "high_frequency" and v <= 30:
                    continue
                kw = {field: v}
                if field == "low_frequency":
                    kw["high_frequency"] = 1e30
                ctx.count("units-bare")
                try:
                    got = getattr(cls(**kw), field)
                    if not (got == float(v) and isinstance(got, float)):
                        ctx.violation("units", f"{cls.__name__}.{field} = {v!r} (bare number) stored as {got!r}", {"field": field, "value": v})
                except Exception as e:
                    ctx.exception("units", f"{cls.__name__}.{field} = {v!r} (bare number) rejected", e, {"field": field})
        # ---------------- frequency band -----------------------------------------------------------
        band_cases = [
            ({"low_frequency": 300.0, "high_frequency": 30.0}, False),
            ({"low_frequency": 100.0, "high_frequency": 100.0}, False),
            ({"low_frequency": "1 GHz"}, False),  # only the low edge, above the default high edge
            ({"low_frequency": 350.0}, False),
            ({"low_frequency": 300.0}, False),  # equals the default high edge
            ({"high_frequency": 20.0}, False),  # only the high edge, below the default low edge
            ({"high_frequency": "30 MHz"}, False),
            ({"high_frequency": "25000 kHz"}, False),
            ({"low_frequency": "0.2 GHz", "high_frequency": "100 MHz"}, False),
            ({"low_frequency": 30.0, "high_frequency": float(np.nextafter(30.0, 31))}, True),
            ({"low_frequency": "30 MHz", "high_frequency": "0.3 GHz"}, True),
            ({"low_frequency": 299.0}, True),
            ({"high_frequency": 31.0}, True),
            ({}, True),
        ]
        for kw, ok in band_cases:
            for route in ("direct", "nested", "toml"):
                ctx.count("band")
                try:
                    if route == "direct":
                        Detector.Radio(**kw)
                    elif route == "nested":
                        NssConfig(detector={"radio": kw})
                    else:
                        import tomli_w

                        p = os.path.join(work, "band.toml")
                        with open(p, "wb") as f:
                            tomli_w.dump({"detector": {"radio": kw}}, f)
                        config_from_toml(p)
                    accepted = True
                except Exception:
                    accepted = False
                ctx.distinct.add(("band", repr(kw), route))
                if accepted != ok:
                    ctx.violation("band", f"radio band {kw!r} given via {route} is {'accepted' if accepted else 'rejected'}", {"band": repr(kw), "route": route})
        # ---------------- months ----------------------------------------------------------------------
        names = ["January", "February", "March", "April", "May", "June", "July", "August", "September", "October", "November", "December"]
        good = []
        for m, nm in enumerate(names, 1):
            good += [(m, m), (str(m), m), (f"{m:02d}", m), (nm, m), (nm.lower(), m), (nm.upper(), m), (nm[:3], m), (nm[:3].upper(), m), (nm[:3].lower(), m), (datetime(2020, m, 15), m)]
            good += [(np.int64(m), m), (np.int32(m), m), (np.uint8(m), m)]  # a number is a number (cf. the bare numbers of unit fields)
        bad = [0, 13, -1, 100, "0", "13", "Foo", "", "Janu", "1.5", "13th", "00", np.int64(0), np.int64(13), np.uint8(200), np.int32(-3)]
        for given, want in good:
            ctx.count("month")
            ctx.distinct.add(("month", repr(given)))
            try:
                got = Simulation.PressureMapCloud(month=given).month
                if got != want:
                    ctx.violation("month", f"month {given!r} stored as {got!r} (expected {want})", {"given": repr(given)})
            except Exception as e:
                ctx.exception("month", f"valid month spelling {given!r} rejected", e, {"given": repr(given)})
        for given in bad:
            ctx.count("month-rejected")
            try:
                got = Simulation.PressureMapCloud(month=given).month
                ctx.violation("month", f"month {given!r} accepted (stored {got!r})", {"given": repr(given)})
            except Exception:
                pass
        # ---------------- CLI ------------------------------------------------------------------------
        runner = CliRunner()
        cli_cases = [
            ([], lambda c: None),
            (["-n", "12345"], lambda c: setattr(c.simulation, "thrown_events", 12345)),
            (["--numthrown", "1e6"], lambda c: setattr(c.simulation, "thrown_events", 1000000)),
            (["--monospectrum", "10.25"], lambda c: setattr(c.simulation, "spectrum", Simulation.MonoSpectrum(log_nu_energy=10.25))),
            (["--powerspectrum", "2.5", "7", "11.5"], lambda c: setattr(c.simulation, "spectrum", Simulation.PowerSpectrum(index=2.5, lower_bound=7.0, upper_bound=11.5))),
            (["--powerspectrum", "1", "6", "12"], lambda c: setattr(c.simulation, "spectrum", Simulation.PowerSpectrum(index=1.0, lower_bound=6.0, upper_bound=12.0))),
            (["--nocloud"], lambda c: setattr(c.simulation, "cloud_model", Simulation.NoCloud())),
            (["--monocloud", "3.5"], lambda c: setattr(c.simulation, "cloud_model", Simulation.MonoCloud(altitude=3.5))),
            (["--monocloud", "-1.5"], lambda c: setattr(c.simulation, "cloud_model", Simulation.MonoCloud(altitude=-1.5))),
            (["--pressuremapcloud", "7"], lambda c: setattr(c.simulation, "cloud_model", Simulation.PressureMapCloud(month=7))),
            (["--pressuremapcloud", "March"], lambda c: setattr(c.simulation, "cloud_model", Simulation.PressureMapCloud(month=3))),
            (["--pressuremapcloud", "dec"], lambda c: setattr(c.simulation, "cloud_model", Simulation.PressureMapCloud(month=12))),
            (["--powerspectrum", "2.2", "6.5", "10", "--pressuremapcloud", "Nov", "-n", "77"], lambda c: (setattr(c.simulation, "spectrum", Simulation.PowerSpectrum(index=2.2, lower_bound=6.5, upper_bound=10.0)), setattr(c.simulation, "cloud_model", Simulation.PressureMapCloud(month=11)), setattr(c.simulation, "thrown_events", 77))),
        ]
        for argv, mod in cli_cases:
            p = os.path.join(work, "cli.toml")
            if os.path.exists(p):
                os.remove(p)
            ctx.count("cli")
            ctx.distinct.add(("cli", tuple(argv)))
            res = runner.invoke(cli, ["create-config"] + argv + [p])
            exp = NssConfig()
            exp.simulation.thrown_events = 100
            mod(exp)
            try:
                if res.exit_code != 0:
                    raise RuntimeError(f"exit code {res.exit_code}: {res.output[-300:]} {res.exception!r}")
                got = config_from_toml(p)
            except Exception as e:
                ctx.exception("cli", f"create-config {' '.join(argv)} failed or wrote an unreadable file", e, {"argv": argv})
                continue
            diffs = [(pth, va, vb) for pth, va, vb, nm in walk(exp, got) if not leaf_equal(va, vb, nm)]
            if diffs:
                ctx.violation("cli", f"create-config {' '.join(argv)}: field {diffs[0][0]} is {diffs[0][2]!r}, expected {diffs[0][1]!r}", {"argv": argv})
    finally:
        shutil.rmtree(work, ignore_errors=True)
    for m in ("roundtrip", "none-section", "units", "units-rejected", "units-rejected-after-accept", "units-bare", "band", "month", "month-rejected", "cli"):
        ctx.require(m)
    return ctx.finish(
        rule="round trip: seeded configurations over every spectrum/cloud variant with floats from {0, -0, denormal, 1e+-300, max double, 0.1+0.2, random over 17 decades}, 26 hostile strings (quotes, backslashes, control characters, CR LF / lone CR / leading and double newlines, non-ASCII, TOML syntax look-alikes, empty) and boundary integers; units: 15 unit-bearing fields x 3-12 spellings x values x {string, Quantity}, incompatible units, bare numbers; 14 band specifications x 3 routes; 120 month spellings + 12 invalid; 13 CLI invocations; a case is a distinct configuration / (field, spelling, value, form) / specification",
        assumptions=["optional sub-models set to None are not generated (compute() dereferences them unconditionally)", "whether a spelling is compatible is decided by the harness route (Quantity(value, unit_object).to(canonical)); a string spelling astropy's own parser rejects is counted, not judged", "angle fields: relative 4 x 2^-52; angle magnitudes are kept in {0} u [1e-290, 1e290] rad (degree value neither overflowing nor denormal)"],
    )
