"""C13 — target-mode geometry and the dark-sky cut.

  times        the sampled instants are t0 + k T / N, k = 0..N-1 (1e-5 s), exactly N of them
  occultation  an instant is kept  <=>  the source is below the detector's Earth limb and its
               emergence angle is below min(42 deg, the limb-angle limit); the source altitude
               comes from an independent astrometric route (too_ref), with a guard band; the
               coarse GMST formula bounds it within 1 deg (swapped / mis-scaled coordinates)
  triangle     nadir angle, emergence angle and path length satisfy the Earth-centre /
               detector / ground-spot triangle (explicit 2-D ray-sphere construction on the
               code's own nadir angle)
  dark-sky     cut == Sun below its limit and (Moon below its limit or phase above minimum),
               judged outside guard bands (0.01 deg altitudes, 1e-6 deg phase); evaluated per
               instant (permutation / single-instant equivariance); monotone in each threshold
  channels     the cut is applied to the optical integral only and only removes events
"""
import math

import numpy as np

from .. import core
from ..oracles import geom_ref as G
from ..oracles import too_ref as T

LEVEL = "exploration"
R = G.R_ASTROPY
GB_SRC = math.radians(1e-3)
GB_BODY = math.radians(0.01)
GB_PHASE = math.radians(1e-6)


def make_cfg(rng, k):
    from nuspacesim.config import NssConfig

    c = NssConfig()
    c.simulation.mode = "Target"
    z = rng.uniform(-1, 1)
    c.simulation.target.source_RA = float(rng.uniform(0, 2 * math.pi))
    c.simulation.target.source_DEC = float(math.asin(z)) if k % 7 else float([math.pi / 2, -math.pi / 2][k % 2])
    yr = int(rng.integers(2020, 2027))
    c.simulation.target.source_date = f"{yr}-{int(rng.integers(1, 13)):02d}-{int(rng.integers(1, 28)):02d}T{int(rng.integers(0, 24)):02d}:{int(rng.integers(0, 60)):02d}:{int(rng.integers(0, 60)):02d}"
    c.simulation.target.source_obst = float([10.0, 3600.0, 86400.0, 30 * 86400.0][k % 4])
    c.detector.initial_position.altitude = float([525.0, 33.0, 36000.0, 1000.0][(k // 2) % 4])
    c.detector.initial_position.latitude = float([rng.uniform(-1.5, 1.5), math.pi / 2, -math.pi / 2, 0.0][(k // 3) % 4])
    c.detector.initial_position.longitude = float([rng.uniform(-2 * math.pi, 2 * math.pi), math.pi, -math.pi, 0.0][(k // 5) % 4])  # any convention (0..360, +-180)
    aH = G.horizon_nadir_angle(R, c.detector.initial_position.altitude)
    if k % 3 == 1 or math.radians(7) >= aH:
        c.simulation.angle_from_limb = float(rng.choice([0.05, 0.3, 0.9]) * aH)
    sm = c.detector.sun_moon
    kind = k % 5
    if kind == 1:
        sm.sun_alt_cut, sm.moon_alt_cut, sm.moon_min_phase_angle_cut = math.radians(90), math.radians(90), 0.0  # always dark
    elif kind == 2:
        sm.sun_alt_cut = math.radians(-90)  # never dark
    elif kind == 3:
        sm.sun_alt_cut, sm.moon_alt_cut, sm.moon_min_phase_angle_cut = 0.0, 0.0, 0.0  # thresholds exactly 0
    elif kind == 4:
        sm.sun_alt_cut = float(math.radians(rng.uniform(-30, 20)))
        sm.moon_alt_cut = float(math.radians(rng.uniform(-20, 30)))
        sm.moon_min_phase_angle_cut = float(math.radians(rng.uniform(0, 180)))
    return core.validated(c, "C13 target configuration")


def ref_dark(sun, moon, phase, sc, mc, pc):
    return (sun < sc) & ((moon < mc) | (phase > pc))


def shard(ctx, si, payload):
    from astropy.time import Time
    from nuspacesim.simulation.geometry.region_geometry import RegionGeomToO

    for k in payload["ks"]:
        rng = ctx.subrng("c13", k)
        cfg = make_cfg(rng, k)
        N = int([1, 2, 50, 400, 7, 49, 103, 2000][k % 8]) if not payload.get("bigN") else 2000
        tg, ip, sm = cfg.simulation.target, cfg.detector.initial_position, cfg.detector.sun_moon
        wit = {"k": k, "RA": tg.source_RA, "DEC": tg.source_DEC, "date": tg.source_date, "T": tg.source_obst, "N": N, "alt": ip.altitude, "lat": ip.latitude, "lon": ip.longitude, "limb": cfg.simulation.angle_from_limb}
        try:
            g = RegionGeomToO(cfg)
            b, th, L, tt = g(N)
        except Exception as e:
            ctx.exception("raises", f"RegionGeomToO raised for a valid target configuration (N={N})", e, wit)
            continue
        # ---- times
        t0 = Time(tg.source_date, format=tg.source_date_format, scale="utc")
        ctx.count("times", N)
        times = g.times
        if len(times) != N:
            ctx.violation("times", f"N={N} instants requested, {len(times)} sampled (T={tg.source_obst} s)", wit)
            continue
        off = (times - t0).sec
        want = np.arange(N) * (tg.source_obst / N)
        if not np.all(np.abs(off - want) <= 1e-5):
            i = int(np.argmax(np.abs(off - want)))
            ctx.violation("times", f"instant {i} of {N} is at t0 + {off[i]!r} s, expected t0 + k T / N = {want[i]!r} s", wit)
        # ---- occultation + limits against independent astrometry
        nad = np.asarray(g.sourceNadRad)
        alt_code = nad - 0.5 * math.pi
        alt_ref = T.source_altitude(tg.source_RA, tg.source_DEC, times, ip.latitude, ip.longitude)
        alt_coarse = T.coarse_source_altitude(tg.source_RA, tg.source_DEC, np.asarray(times.jd), ip.latitude, ip.longitude)
        ctx.count("astrometry", N)
        d = np.abs(alt_code - alt_ref)
        ctx.track_worst("source_alt_vs_itrs_route_deg", float(np.degrees(d.max())), 1e-3)
        ctx.track_worst("source_alt_vs_coarse_gmst_deg", float(np.degrees(np.abs(alt_code - alt_coarse).max())), 1.0)
        if not (np.all(d <= GB_SRC) and np.all(np.abs(alt_code - alt_coarse) <= math.radians(1.0))):
            i = int(np.argmax(d))
            ctx.violation("astrometry", f"source altitude {math.degrees(alt_code[i])!r} deg at {times[i].isot}; independent ITRS route {math.degrees(alt_ref[i])!r} deg, coarse GMST formula {math.degrees(alt_coarse[i])!r} deg", wit)
        D = R + ip.altitude
        aH = math.asin(R / D)
        nad_ref = alt_ref + 0.5 * math.pi
        below = nad_ref < aH
        lim = min(math.radians(42.0), math.acos(min(1.0, (D / R) * math.sin(aH - cfg.simulation.angle_from_limb))))
        with np.errstate(invalid="ignore"):
            beta_ref = np.arccos(np.clip((D / R) * np.sin(nad_ref), -1, 1))
        keep_ref = below & (beta_ref < lim)
        # guard band: the decision must not flip within +-GB_SRC of the source altitude
        robust = np.ones(N, bool)
        for s_ in (-GB_SRC, GB_SRC):
            n2 = nad_ref + s_
            with np.errstate(invalid="ignore"):
                b2 = np.arccos(np.clip((D / R) * np.sin(n2), -1, 1))
            robust &= ((n2 < aH) & (b2 < lim)) == keep_ref
        kept_code = np.zeros(N, bool)
        hm = np.asarray(g.horizon_mask, bool)
        kept_code[np.flatnonzero(hm)[np.asarray(g.volume_mask, bool)]] = True
        ctx.count("occultation", int(robust.sum()))
        ctx.obs["instants_in_guard_band"] = ctx.obs.get("instants_in_guard_band", 0) + int((~robust).sum())
        ctx.obs["kept_instants_seen"] = ctx.obs.get("kept_instants_seen", 0) + int(kept_code.sum())
        bad = robust & (kept_code != keep_ref)
        if bad.any():
            i = int(np.flatnonzero(bad)[0])
            ctx.violation("occultation", f"instant {times[i].isot}: source altitude {math.degrees(alt_ref[i])!r} deg (limb at {-math.degrees(0.5*math.pi - aH)!r} deg), emergence {math.degrees(beta_ref[i]) if np.isfinite(beta_ref[i]) else None} deg, limit {math.degrees(lim)!r} deg: instant is {'kept' if kept_code[i] else 'dropped'} ({int(bad.sum())} of {N})", wit)
        # returned arrays are the kept instants in order
        ctx.count("returned", int(kept_code.sum()))
        if not (len(b) == int(kept_code.sum()) == len(th) == len(L) == len(tt) and np.array_equal(np.asarray(th), nad[kept_code]) and np.all(np.abs((tt - times[kept_code]).sec) <= 1e-9 if len(tt) else True)):
            ctx.violation("returned", f"the returned (beta, nadir, path length, times) are not the kept instants in order ({len(b)} returned, {int(kept_code.sum())} kept)", wit)
        # ---- a second throw on the same object (explicit fractions, reversed): nothing of the first
        #      throw may survive; the kept pattern must be the first one reversed
        if N > 1:
            fr = (np.arange(N) / N)[::-1].copy()
            fr0 = fr.copy()
            try:
                g.throw(fr)
                hm2 = np.asarray(g.horizon_mask, bool)
                k2 = np.zeros(N, bool)
                k2[np.flatnonzero(hm2)[np.asarray(g.volume_mask, bool)]] = True
                ctx.count("rethrow", N)
                if fr.tobytes() != fr0.tobytes():
                    ctx.violation("rethrow", "throw(times array) modified the array it was given", wit)
                elif not (np.array_equal(k2, kept_code[::-1]) and np.allclose(np.asarray(g.sourceNadRad), nad[::-1], rtol=0, atol=1e-12) and len(g.pathLens()) == int(k2.sum())):
                    ctx.violation("rethrow", f"a second throw on the same object with the instants reversed does not give the first throw's pattern reversed ({int(k2.sum())} kept vs {int(kept_code.sum())})", wit)
            except Exception as e:
                ctx.exception("rethrow", "a second throw(times array) on the same object raised", e, wit)
            g.throw(N)
            b, th, L, tt = g.beta_rad(), g.thetas(), g.pathLens(), g.val_times()
        # ---- triangle on the code's own nadir angles
        if len(b):
            nk = np.asarray(th, dtype=np.float64)
            disc = R * R - (D * np.sin(nk)) ** 2
            l_ref = D * np.cos(nk) - np.sqrt(np.maximum(disc, 0))
            gx, gy = l_ref * np.sin(nk), D - l_ref * np.cos(nk)  # ground point, detector at (0, D)
            tx, ty = -np.sin(nk), np.cos(nk)  # trajectory direction: ground -> detector
            beta_tri = np.arcsin(np.clip((tx * gx + ty * gy) / R, -1, 1))
            ctx.count("triangle", len(b))
            eb = np.abs(np.asarray(b) - beta_tri)
            el = np.abs(np.asarray(L) - l_ref) / l_ref
            ctx.track_worst("triangle_beta_rad", float(eb.max()), 1e-7)
            ctx.track_worst("triangle_path_rel", float(el.max()), 1e-9)
            tol_b = 1e-7 + 4e-16 / np.maximum(np.sin(np.asarray(b)), 1e-9)
            if not (np.all(eb <= tol_b) and np.all(el <= 1e-9 + 4e-16 * D / np.maximum(l_ref * np.sin(np.asarray(b)), 1e-12)) and np.all((np.asarray(b) >= 0) & (np.asarray(b) < lim + 1e-12))):
                i = int(np.argmax(eb / tol_b))
                ctx.violation("triangle", f"nadir angle {nk[i]!r} rad: emergence {np.asarray(b)[i]!r} rad and path length {np.asarray(L)[i]!r} km; ray-sphere triangle gives {beta_tri[i]!r} rad and {l_ref[i]!r} km", wit)
        # ---- dark-sky cut
        nt = min(N, payload["ncut"])
        tsel = times[:: max(1, N // nt)][:nt] if N > 1 else times
        try:
            cut = np.atleast_1d(np.asarray(g.too_source.sun_moon_cut(tsel), bool))
        except Exception as e:
            ctx.exception("raises", "sun_moon_cut raised", e, wit)
            continue
        sun = T.body_altitude("sun", tsel, ip.latitude, ip.longitude, ip.altitude)
        moon = T.body_altitude("moon", tsel, ip.latitude, ip.longitude, ip.altitude)
        ph = T.moon_phase_angle(tsel)
        refd = ref_dark(sun, moon, ph, sm.sun_alt_cut, sm.moon_alt_cut, sm.moon_min_phase_angle_cut)
        rob = np.ones(len(tsel), bool)
        for ds in (-GB_BODY, GB_BODY):
            for dm in (-GB_BODY, GB_BODY):
                for dp in (-GB_PHASE, GB_PHASE):
                    rob &= ref_dark(sun + ds, moon + dm, ph + dp, sm.sun_alt_cut, sm.moon_alt_cut, sm.moon_min_phase_angle_cut) == refd
        ctx.count("dark-sky", int(rob.sum()))
        ctx.obs["dark_instants_judged"] = ctx.obs.get("dark_instants_judged", 0) + int((rob & refd).sum())
        ctx.obs["bright_instants_judged"] = ctx.obs.get("bright_instants_judged", 0) + int((rob & ~refd).sum())
        ctx.obs["dark_sky_instants_in_guard_band"] = ctx.obs.get("dark_sky_instants_in_guard_band", 0) + int((~rob).sum())
        bad = rob & (cut != refd)
        if bad.any():
            i = int(np.flatnonzero(bad)[0])
            ctx.violation("dark-sky", f"{tsel[i].isot}: Sun altitude {math.degrees(sun[i]):.4f} deg (limit {math.degrees(sm.sun_alt_cut):.4f}), Moon altitude {math.degrees(moon[i]):.4f} deg (limit {math.degrees(sm.moon_alt_cut):.4f}), phase angle {math.degrees(ph[i]):.4f} deg (minimum {math.degrees(sm.moon_min_phase_angle_cut):.4f}): dark-sky flag is {bool(cut[i])} ({int(bad.sum())} of {len(tsel)} instants)", wit)
        # agreement of the code's own body altitudes with the independent route (observation + band)
        try:
            sa = np.atleast_1d(g.too_source.get_sun(tsel).alt.rad)
            ma = np.atleast_1d(g.too_source.get_moon(tsel).alt.rad)
            pa = np.atleast_1d(np.asarray(g.too_source.moon_phase_angle(tsel).value))
            ctx.track_worst("sun_alt_vs_ref_deg", float(np.degrees(np.abs(sa - sun).max())), 0.01)
            ctx.track_worst("moon_alt_vs_ref_deg", float(np.degrees(np.abs(ma - moon).max())), 0.01)
            ctx.track_worst("phase_vs_ref_deg", float(np.degrees(np.abs(pa - ph).max())), 1e-6)
            ctx.count("astrometry-bodies", len(tsel))
            if not (np.all(np.abs(sa - sun) <= GB_BODY) and np.all(np.abs(ma - moon) <= GB_BODY) and np.all(np.abs(pa - ph) <= GB_PHASE)):
                ctx.violation("astrometry", f"Sun/Moon altitude or phase angle deviates from the independent route by more than the guard band (sun {np.degrees(np.abs(sa - sun).max()):.2e}, moon {np.degrees(np.abs(ma - moon).max()):.2e}, phase {np.degrees(np.abs(pa - ph).max()):.2e} deg)", wit)
        except Exception as e:
            ctx.exception("raises", "get_sun/get_moon/moon_phase_angle raised", e, wit)
        # per-instant evaluation: permutation and single instants
        if len(tsel) > 1:
            perm = rng.permutation(len(tsel))
            ctx.count("dark-sky-per-instant", len(tsel))
            c2 = np.asarray(g.too_source.sun_moon_cut(tsel[perm]), bool)
            c1 = bool(np.asarray(g.too_source.sun_moon_cut(tsel[perm[0] : perm[0] + 1]), bool).ravel()[0])
            if not (np.array_equal(c2, cut[perm]) and c1 == bool(cut[perm[0]])):
                ctx.violation("dark-sky", "the dark-sky flag of an instant depends on the other instants in the call", wit)
        # monotone in the thresholds: raising the Sun / Moon limit, lowering the minimum phase only adds dark instants
        from nuspacesim.simulation.geometry.too import ToOEvent

        base_cut = cut
        for field, delta in (("sun_alt_cut", math.radians(5)), ("moon_alt_cut", math.radians(5)), ("moon_min_phase_angle_cut", -math.radians(10))):
            c2 = cfg.model_copy(deep=True)
            setattr(c2.detector.sun_moon, field, getattr(c2.detector.sun_moon, field) + delta)
            more = np.atleast_1d(np.asarray(ToOEvent(c2).sun_moon_cut(tsel), bool))
            ctx.count("dark-sky-monotone", len(tsel))
            if np.any(base_cut & ~more):
                ctx.violation("dark-sky", f"relaxing {field} by {math.degrees(delta):+.0f} deg turns a dark instant bright", dict(wit, field=field))
        # ---- channels: optical only, only removes
        if len(b) and sm.sun_moon_cuts:
            nk_ = len(b)
            args = (np.full(nk_, 100.0), np.full(nk_, math.cos(math.radians(1.5))), np.full(nk_, 0.5), 10.0, 1.0, 1.0)
            st = {}

            def store(names, cols, *a, **kk):
                st[names[0]] = np.array(cols[0], copy=True)

            dark_k = np.atleast_1d(np.asarray(g.too_source.sun_moon_cut(g.val_times()), bool))
            ctx.obs["bright_kept_instants_in_channel_test"] = ctx.obs.get("bright_kept_instants_in_channel_test", 0) + int((~dark_k).sum())
            # the trigger threshold is a user setting: the usual positive one, 0 and a negative one
            # ("trigger off"); the dark-sky cut applies to the optical column whatever it is
            for thr in (10.0, 0.0, -1.0):
                a_ = args[:3] + (thr,) + args[4:]
                o = g.mcintegral(*a_, lenDec=np.zeros(nk_), method="Optical", store=store)
                r = g.mcintegral(*a_, lenDec=np.zeros(nk_), method="Radio", store=store)
                ctx.count("channels", nk_)
                # every kept event has a positive area here (no decay length, trigger above threshold),
                # so the radio column must be non-zero everywhere: the cut is not applied to radio
                ok = np.all(st["tmcintrad"] != 0) and r[2] == nk_
                ok = ok and np.array_equal(st["tmcintopt"] != 0, (st["tmcintrad"] != 0) & dark_k) and np.all(st["tmcintopt"][dark_k] == st["tmcintrad"][dark_k]) and o[2] <= r[2] and o[2] == int(dark_k.sum())
                if not ok:
                    ctx.violation("channels", f"trigger threshold {thr}: the optical per-event column is not the radio column with the bright-sky instants removed (optical passing {o[2]}, radio {r[2]}, dark instants {int(dark_k.sum())} of {nk_})", dict(wit, threshold=thr))
                    break
        # ---- the integrals are observers of the thrown geometry: after an optical and a radio integral with
        #      real decay lengths the object still reports the path lengths, angles and instants of the
        #      triangle checked above (seeded C13-15: `decay_to_det -= lenDec` on the object's own array)
        if len(b):
            nk_ = len(b)
            snap = [np.array(x, copy=True) for x in (np.asarray(b), np.asarray(th), np.asarray(L))]
            tsnap = (np.array(g.val_times().jd1, copy=True), np.array(g.val_times().jd2, copy=True))
            ld = np.asarray(L, dtype=np.float64) * np.linspace(0.0, 1.2, nk_)
            ld_in = ld.copy()
            try:
                for meth in ("Optical", "Radio", "Optical"):
                    g.mcintegral(np.full(nk_, 100.0), np.full(nk_, math.cos(math.radians(1.5))), np.full(nk_, 0.5), 10.0, 1.0, 1.0, lenDec=ld, method=meth)
                ctx.count("integral-observer", nk_)
                now = [np.asarray(g.beta_rad()), np.asarray(g.thetas()), np.asarray(g.pathLens())]
                for nm, a0, a1 in zip(("emergence angles", "nadir angles", "path lengths"), snap, now):
                    if a0.shape != a1.shape or not np.array_equal(a0, a1):
                        ctx.violation("integral-observer", f"after an optical, a radio and another optical integral with non-zero decay lengths the object's {nm} differ from the thrown ones (max change {float(np.max(np.abs(a0 - a1))) if a0.shape == a1.shape else 'shape'}): the triangle no longer holds", wit)
                        break
                if not (np.array_equal(tsnap[0], g.val_times().jd1) and np.array_equal(tsnap[1], g.val_times().jd2)):
                    ctx.violation("integral-observer", "the kept instants changed after the integrals", wit)
                if not np.array_equal(ld, ld_in):
                    ctx.violation("integral-observer", "the decay-length argument was modified by the integral", wit)
            except Exception as e:
                ctx.exception("integral-observer", "target-mode integral with decay lengths raised", e, wit)
        ctx.distinct.add_rows(np.full(N, float(k)), np.asarray(times.jd1), np.asarray(times.jd2))
        if len(ctx.samples) < 2:
            ctx.sample({"config": wit, "kept": int(kept_code.sum()), "first_instant": times[0].isot, "source_alt_deg": float(np.degrees(alt_code[0])), "dark_first": bool(cut[0])})


def grid_shard(ctx, si, payload):
    """Instant grid alone, over many (N, T): len == N, instant k at t0 + k T / N, all inside [t0, t0 + T)."""
    from astropy.time import Time
    from nuspacesim.simulation.geometry.region_geometry import RegionGeomToO

    rng = ctx.subrng("c13grid", si)
    for T_ in payload["Ts"]:
        cfg = make_cfg(rng, 3)
        cfg.simulation.target.source_obst = T_
        tg = cfg.simulation.target
        # every other duration starts shortly before a UTC leap second (2016-12-31, 2015-06-30 end in
        # 23:59:60): "equally spaced" is elapsed time, whatever the calendar does (seeded C13-16)
        if payload["Ts"].index(T_) % 2 == 1:
            day = ("2016-12-31", "2015-06-30", "2012-06-30")[payload["Ts"].index(T_) // 2 % 3]
            back = min(T_ / 2, 86000.0)
            hh, rem = divmod(int(86400 - back), 3600)
            tg.source_date, tg.source_date_format = f"{day}T{hh:02d}:{rem // 60:02d}:{rem % 60:02d}", "isot"
            ctx.count("times-leap-second-windows")
        g = RegionGeomToO(cfg)
        t0 = Time(tg.source_date, format=tg.source_date_format, scale="utc")
        for N in payload["Ns"]:
            N = int(N)
            ctx.count("times-grid")
            try:
                # (a count is a count whatever its integer type: np.arange / a table column give numpy integers)
                times = g.generate_times(N if N % 3 else (np.int64(N) if N % 2 else np.int32(N)))
            except Exception as e:
                ctx.exception("times", f"generate_times({N}) raised for T={T_} s", e, {"N": N, "T": T_})
                continue
            nt_ = len(times) if getattr(times, "shape", ()) != () else -1
            if nt_ != N:
                ctx.violation("times", f"N={N} instants requested ({'numpy' if N % 3 == 0 else 'Python'} integer), {nt_ if nt_ >= 0 else 'a single scalar instant'} sampled (T={T_} s)", {"N": N, "T": T_})
                continue
            off = (times - t0).sec
            want = np.arange(N) * (T_ / N)
            tol = 1e-5 + 1e-12 * T_
            if not (np.all(np.abs(off - want) <= tol) and off[0] >= -tol and off[-1] < T_):
                i = int(np.argmax(np.abs(off - want)))
                ctx.violation("times", f"N={N}, T={T_} s: instant {i} is at t0 + {off[i]!r} s, expected t0 + k T / N = {want[i]!r} s inside [t0, t0 + T)", {"N": N, "T": T_})
            ctx.distinct.add((N, T_))


def limit_edges(ctx):
    """The emergence angle at the horizon and the limb limit at its extremes, evaluated by the real object:
    a source within a few ulps of the horizon has emergence angle ~0 (a number, not NaN); a limb angle
    that covers more than the whole disc sets no limit; time fractions in half precision are instants."""
    import math

    from astropy.time import Time
    from nuspacesim.simulation.geometry.region_geometry import RegionGeomToO

    rng = ctx.subrng("c13edges")
    for alt in [13.0, 39.0, 42.0, 65.0, 160.0, 220.0, 292.0, 321.0, 33.0, 525.0, 5000.0, 36000.0] + [float(a) for a in range(1, 400, ctx.pick(7, 1))]:
        cfg = make_cfg(rng, 3)
        cfg.detector.initial_position.altitude = alt
        g = RegionGeomToO(core.validated(cfg, "C13 limit-edge configuration"))
        aH = float(g.alphaHorizon)
        nad = [aH]
        for _ in range(3):
            nad.append(float(np.nextafter(nad[-1], 0.0)))
        ctx.count("limit-edges", len(nad))
        with np.errstate(all="ignore"):
            b = np.asarray(g.get_beta_angle(np.array(nad)), dtype=np.float64)
        if not (np.all(np.isfinite(b)) and np.all(b >= 0) and np.all(b < 1e-6)):
            i = int(np.flatnonzero(~(np.isfinite(b) & (b >= 0) & (b < 1e-6)))[0])
            ctx.violation("limit-edges", f"altitude {alt} km: a source at nadir angle {nad[i]!r} rad ({i} ulps inside the horizon angle {aH!r}) gets emergence angle {b[i]!r} rad instead of ~0", {"altitude": alt, "ulps": i})
    # limb angles beyond the whole disc: the kept set equals the one for the whole disc (limit 42 deg)
    for alt, afl_deg in ((36000.0, 20.0), (36000.0, 90.0), (5000.0, 70.0), (525.0, 136.0)):
        kept = {}
        for tag, afl in (("whole disc", None), ("beyond", math.radians(afl_deg))):
            cfg = make_cfg(rng, 3)
            cfg.detector.initial_position.altitude = alt
            cfg.detector.initial_position.latitude, cfg.detector.initial_position.longitude = 0.0, 1.0
            tg = cfg.simulation.target
            tg.source_RA, tg.source_DEC, tg.source_date, tg.source_date_format, tg.source_obst = 2.0, 0.0, "2022-03-21T00:00:00", "isot", 86400.0
            g0 = RegionGeomToO(cfg)
            cfg.simulation.angle_from_limb = float(g0.alphaHorizon) if afl is None else afl
            g = RegionGeomToO(cfg)
            try:
                with np.errstate(all="ignore"):
                    g.throw(2000)
                kept[tag] = np.asarray(g.val_times().jd, dtype=np.float64) if hasattr(g.val_times(), "jd") else np.asarray(g.val_times())
            except Exception as e:
                ctx.exception("limit-edges", f"altitude {alt} km, angle from limb {afl_deg} deg: throw raised", e, {"altitude": alt})
                kept = None
                break
        ctx.count("limit-edges")
        if kept is not None and not (kept["whole disc"].shape == kept["beyond"].shape and np.array_equal(kept["whole disc"], kept["beyond"])):
            ctx.violation("limit-edges", f"altitude {alt} km: with an angle from the limb of {afl_deg} deg (more than the whole disc) {kept['beyond'].size} of 2000 instants are kept; with the whole disc (limit 42 deg) {kept['whole disc'].size}", {"altitude": alt, "afl_deg": afl_deg})
    # time fractions as a half / single precision array
    cfg = make_cfg(rng, 3)
    cfg.simulation.target.source_obst = 86400.0
    g = RegionGeomToO(cfg)
    fr = (np.arange(64) / 64.0)
    for dt in (np.float16, np.float32):
        ctx.count("limit-edges")
        try:
            t1, t2 = g.generate_times(fr.astype(dt)), g.generate_times(fr.copy())
            d = np.abs((t1 - t2).sec)
            if not np.all(d <= 1e-5):
                ctx.violation("limit-edges", f"generate_times with a {np.dtype(dt).name} array of time fractions k/64: instant {int(np.argmax(np.nan_to_num(d, nan=np.inf)))} is {float(np.nanmax(d)) if np.isfinite(d).any() else float('nan')!r} s away from what the same fractions as float64 give", {"dtype": np.dtype(dt).name})
        except Exception as e:
            ctx.exception("limit-edges", f"generate_times with a {np.dtype(dt).name} array raised", e, {})

    # positions along a target-mode trajectory (the detector's own position, by construction) do not
    # depend on the dtype of the distance array (D45)
    lat0, lon0 = g.find_lat_long_along_traj(np.zeros(3))
    for dt in (np.float16, np.float32, np.int64):
        ctx.count("limit-edges")
        try:
            la, lo = g.find_lat_long_along_traj(np.zeros(3, dtype=dt))
            if not (np.array_equal(np.asarray(la, dtype=np.float64), np.asarray(lat0, dtype=np.float64)) and np.array_equal(np.asarray(lo, dtype=np.float64), np.asarray(lon0, dtype=np.float64))):
                ctx.violation("limit-edges", f"find_lat_long_along_traj with a {np.dtype(dt).name} distance array gives ({np.asarray(la)[0]!r}, {np.asarray(lo)[0]!r}); with float64 distances ({np.asarray(lat0)[0]!r}, {np.asarray(lon0)[0]!r})", {"dtype": np.dtype(dt).name})
        except Exception as e:
            ctx.exception("limit-edges", f"find_lat_long_along_traj with a {np.dtype(dt).name} array raised", e, {})


def run(ctx):
    try:
        limit_edges(ctx)
    except Exception as e:  # the code under test raising on a valid configuration is a verdict, not a harness error
        if type(e).__module__.startswith("nssmon"):
            raise
        ctx.exception("raises", "target-mode geometry raised on a valid configuration (limit-edges)", e, {})
    ctx.require("limit-edges")
    nmax = ctx.pick(1500, 12000)
    allN = list(range(1, nmax + 1)) + [100000, 1000000]
    rg = ctx.subrng("c13gridT")
    Ts = [86400.0, 3600.0, 7 * 86400.0, 10.0, 30 * 86400.0, float(rg.uniform(1.0, 3e6)), float(round(rg.uniform(60, 1e5)))]
    G = [{"Ns": allN[i::16], "Ts": Ts} for i in range(16)]
    core.run_shards(ctx, "nssmon.checks.c13", "grid_shard", G, workers=16, timeout=ctx.pick(900, 3000))
    ctx.require("times-grid")
    n = ctx.pick(96, 480)
    ks = list(range(n))
    nsh = 16
    P = [{"ks": ks[i::nsh], "ncut": ctx.pick(60, 400)} for i in range(nsh)]
    core.run_shards(ctx, "nssmon.checks.c13", "shard", P, workers=nsh, timeout=ctx.pick(1200, 6000))
    for m in ("times", "astrometry", "occultation", "returned", "rethrow", "triangle", "dark-sky", "dark-sky-per-instant", "dark-sky-monotone", "channels", "integral-observer", "astrometry-bodies"):
        ctx.require(m)
    if ctx.obs.get("bright_kept_instants_in_channel_test", 0) < 5:
        ctx.inconclusive_because("no bright kept instants reached the channel test")
    if ctx.obs.get("kept_instants_seen", 0) < 20 or ctx.obs.get("dark_instants_judged", 0) < 20 or ctx.obs.get("bright_instants_judged", 0) < 20:
        ctx.inconclusive_because("too few kept / dark / bright instants were observed")
    return ctx.finish(
        rule="seeded target configurations: RA/Dec uniform on the sphere plus both poles; start dates 2020-2026; T in {10 s, 1 h, 1 d, 30 d}; N in {1,2,7,49,50,103,400,2000} (full monitors) and every N in 1..1500 (quick) / 1..12000 (thorough) plus 1e5, 1e6 for the instant grid alone, each with T in {10 s, 1 h, 1 d, 7 d, 30 d, two random}; detector altitude {33, 525, 1000, 36000} km, latitude incl. both poles, longitude incl. +-pi; limb angle default and 0.05..0.9 of the horizon nadir angle; cut thresholds default, always dark, never dark, exactly 0, random; a case is a distinct (configuration, instant)",
        assumptions=["astropy's coordinate transformations, ephemerides and IERS tables (dates are kept inside the shipped IERS range)", "guard bands: 1e-3 deg source altitude, 0.01 deg Sun/Moon altitude, 1e-6 deg phase angle; instants inside a band are not judged (counted in the evidence)", "spherical Earth of radius astropy R_earth for the limb", "times tolerance 1e-5 s"],
    )
