"""C06 — Cherenkov photon yield conforms to the shower model at working precision.

Three comparisons per in-domain event (beta, altitude, E) and detector altitude:
  f32-band     production float32 ``CphotAng.run`` vs the scalar double reference
               (cphot_ref): finite, non-negative, density within max(10 %, 0.1 m^-2), angle
               within 1 %; median relative density deviation <= 0.5 %
  f64-logic    the *same, unchanged* kernel under the guarded NUSPACESIM_VERIF_DTYPE=float64
               hook vs the reference: density 1e-9, angle 1e-10 — separates logic changes far
               below 10 % from rounding noise
  clamp        an emergence angle below 1 deg gives bit-identical results to 1 deg
  stepping     every call of the stepping function observed at a probe: centres strictly
               increasing, dz > 0, each step satisfies the law of cosines with dL, last centre
               within one step of 65 km, equal to the reference stepping (1e-12, f64 path)
  sanitizer    the working tree's zsteps.cpp compiled with ASan+UBSan (both template
               instantiations) on every tuple the Python workload passed plus a boundary grid:
               no report, same output hash as the unsanitized build
"""
import math
import os
import subprocess

import numpy as np

from .. import core, inject
from ..oracles import cphot_ref as CR

LEVEL = "exploration"
B42 = math.radians(42.0)


def kernels(det_alt):
    from nuspacesim.simulation.eas_optical.cphotang import CphotAng

    old = os.environ.pop("NUSPACESIM_VERIF_DTYPE", None)
    k32 = CphotAng(det_alt)
    os.environ["NUSPACESIM_VERIF_DTYPE"] = "float64"
    try:
        k64 = CphotAng(det_alt)
    finally:
        if old is None:
            os.environ.pop("NUSPACESIM_VERIF_DTYPE", None)
        else:
            os.environ["NUSPACESIM_VERIF_DTYPE"] = old
    return k32, k64


def design_points(n_b, n_a, n_e):
    bs = np.linspace(0, B42, n_b)
    as_ = np.linspace(0, 20.0, n_a)
    es = np.logspace(-5, 4, n_e)
    return [(float(b), float(a), float(e)) for b in bs for a in as_ for e in es]


def near_power_of_ten(e100):
    lg = math.log10(e100 * 1e8)
    return abs(lg - round(lg)) < 1e-9 * max(1.0, abs(lg)) + 4e-10


def shard(ctx, si, payload):
    from nuspacesim.simulation.eas_optical import cphotang

    if inject.INSTALL_ERROR:
        raise core.Inconclusive(f"source-built zsteps could not be injected: {inject.INSTALL_ERROR}")
    tuples = []
    base = inject.zsteps

    def rec(z, s, RadE, zMaxZ, zmax, dL, pi):
        zs, dz = base(z, s, RadE, zMaxZ, zmax, dL, pi)
        a = [float(x) for x in (z, s, RadE, zMaxZ, zmax, dL, pi)]
        tuples.append(a)
        # ---- stepping invariants on what the kernel actually received
        ctx.count("stepping")
        ok = zs.size >= 1 and np.all(np.diff(zs) > 0) and np.all(dz > 0) and np.all(np.isfinite(zs))
        if ok:
            start = a[0] + np.concatenate([[0.0], np.cumsum(dz)[:-1]])
            rad = start + a[2]
            tp = np.arccos(a[1] * ((a[2] + a[4]) / rad))
            lhs = (rad + dz) ** 2
            rhs = rad * rad + a[5] * a[5] - 2.0 * rad * a[5] * np.cos(a[6] / 2.0 + tp)
            ok = np.all(np.abs(lhs - rhs) <= 1e-9 * a[5] * rad) and np.allclose(zs, start + dz / 2, rtol=1e-13, atol=1e-12)
            ok = ok and start[-1] <= a[3] < start[-1] + dz[-1] and abs(zs[-1] - a[3]) <= a[5]
        if not ok:
            ctx.violation("stepping", f"stepping from {a[0]!r} km with sin(theta_view)={a[1]!r}: {zs.size} centres do not form strictly increasing {a[5]} km steps ending within one step of {a[3]} km", {"args": [float(x).hex() for x in a]})
        return zs, dz

    cphotang.cppzsteps = rec
    try:
        devs = []
        for det_alt, pts in payload["work"]:
            k32, k64 = kernels(det_alt)
            if k64.dtype != np.float64 or k32.dtype != np.float32:
                raise core.Inconclusive("the guarded float64 hook is not active (NUSPACESIM_VERIF / NUSPACESIM_VERIF_DTYPE)")
            items = []
            for (b, a, e) in pts:
                wit = {"beta": float(b).hex(), "alt": float(a).hex(), "E100PeV": float(e).hex(), "det_alt": det_alt, "readable": [b, a, e]}
                try:
                    dr, cr = CR.run(b, a, e, det_alt)
                except Exception as ex:
                    ctx.inconclusive_because(f"reference model failed on {b, a, e}: {ex!r}")
                    continue
                try:
                    ntup = len(tuples)
                    d64, c64 = (float(x) for x in k64.run(b, a, e, 0.0, 0.0))
                    tup64 = tuples[ntup] if len(tuples) > ntup else None
                    d32, c32 = (float(x) for x in k32.run(b, a, e, 0.0, 0.0))
                except Exception as ex:
                    ctx.exception("raises", f"CphotAng.run raised on the in-domain event (beta={b}, alt={a}, E={e}, detector {det_alt} km)", ex, wit)
                    continue
                # ---- (ii) logic: f64 kernel vs reference
                if not near_power_of_ten(e):
                    ctx.count("f64-logic")
                    rd = abs(d64 - dr) / dr if dr else abs(d64)
                    rc = abs(c64 - cr) / cr if cr else abs(c64)
                    ctx.track_worst("f64_density_rel", rd, 1e-9)
                    ctx.track_worst("f64_angle_rel", rc, 1e-10)
                    if not (rd <= 1e-9 and rc <= 1e-10):
                        ctx.violation("f64-logic", f"detector {det_alt} km, beta={math.degrees(b):.4f} deg, alt={a:.4f} km, E={e:.4g}x100PeV: kernel in double gives (density {d64!r}, angle {c64!r}), reference model ({dr!r}, {cr!r}) [rel {rd:.2e}, {rc:.2e}]", wit)
                    # stepping identical to the reference stepping (f64 path)
                    if tup64 is not None:
                        zr, dzr = CR.stepping(a, tup64[1])
                        zk, dzk = base(*tup64)
                        ctx.count("stepping-vs-reference")
                        if len(zr) != zk.size or not (np.allclose(zk, zr, rtol=1e-12, atol=0) and np.allclose(dzk, dzr, rtol=1e-9, atol=0)):
                            ctx.violation("stepping", f"stepping from {a} km: the compiled stepping gives {zk.size} steps (first {zk[:2].tolist()}), the reference {len(zr)} (first {zr[:2]})", wit)
                # ---- (i) production float32 vs reference
                ctx.count("f32-band")
                fin = math.isfinite(d32) and math.isfinite(c32) and d32 >= 0 and c32 >= 0
                okd = abs(d32 - dr) <= max(0.1 * dr, 0.1)
                okc = abs(c32 - cr) <= 0.01 * cr if cr else c32 == 0
                if dr > 0:
                    devs.append(abs(d32 - dr) / dr)
                    ctx.track_worst("f32_density_rel_where_above_1_per_m2", abs(d32 - dr) / dr if dr > 1.0 else 0.0, 0.1)
                if cr > 0:
                    ctx.track_worst("f32_angle_rel", abs(c32 - cr) / cr, 0.01)
                if not (fin and okd and okc):
                    ctx.violation("f32-band", f"detector {det_alt} km, beta={math.degrees(b):.4f} deg, alt={a:.4f} km, E={e:.4g}x100PeV: production kernel gives (density {d32!r}, angle {c32!r}), reference model ({dr!r}, {cr!r})", wit)
                # ---- below 1 deg is treated as 1 deg
                if b < math.radians(1.0):
                    ctx.count("clamp")
                    one = math.radians(1.0)
                    r32 = tuple(float(x) for x in k32.run(one, a, e, 0.0, 0.0))
                    r64 = tuple(float(x) for x in k64.run(one, a, e, 0.0, 0.0))
                    if r32 != (d32, c32) or r64 != (d64, c64):
                        ctx.violation("clamp", f"detector {det_alt} km, alt={a:.4f} km, E={e:.4g}: beta={math.degrees(b):.4f} deg gives {(d32, c32)!r}, beta=1 deg gives {r32!r} (double: {(d64, c64)!r} vs {r64!r})", wit)
                items.append((b, a, e, d32, c32, d64, c64))
                ctx.distinct.add_rows(np.array([det_alt]), np.array([b]), np.array([a]), np.array([e]))
                if si == 0 and len(ctx.samples) < 3:
                    ctx.sample({"det_alt": det_alt, "beta_deg": math.degrees(b), "alt_km": a, "E_100PeV": e, "density_f32": d32, "density_f64": d64, "density_ref": dr, "angle_f32": c32, "angle_ref": cr})
            # ---- the batch entry point (what EAS calls) gives, event by event, what run() gave above
            #      (sub-degree angles and this detector altitude included): the model clauses judged on
            #      run() then hold for the batch path too
            sel = [it for it in items if it[0] < math.radians(1.0)][:24] + items[:: max(1, len(items) // 40)][:40]
            if sel:
                import contextlib
                import io

                import dask

                arr = [np.array([it[j] for it in sel], dtype=np.float64) for j in range(3)] + [np.zeros(len(sel)), np.zeros(len(sel))]
                for kk, (jd, jc), nm in ((k32, (3, 4), "float32"), (k64, (5, 6), "double")):
                    try:
                        with dask.config.set(scheduler="synchronous"), contextlib.redirect_stdout(io.StringIO()):
                            dB, cB = kk(*[x.copy() for x in arr])
                    except Exception as ex:
                        ctx.exception("raises", f"CphotAng.__call__ raised on {len(sel)} in-domain events (detector {det_alt} km, {nm})", ex, {"det_alt": det_alt})
                        continue
                    ctx.count("batch-path", len(sel))
                    dB, cB = np.asarray(dB, dtype=np.float64), np.asarray(cB, dtype=np.float64)
                    # like with like (observation O8): the batch hands numpy float64 scalars to run(), and the
                    # final detector-altitude scaling follows the scalar type; the values judged above against
                    # the reference (Python floats) differ from these only by that float32 / double rounding
                    one_ = [tuple(float(v) for v in kk.run(*(np.float64(x[i]) for x in arr))) for i in range(len(sel))]
                    want_d, want_c = np.array([o[0] for o in one_]), np.array([o[1] for o in one_])
                    ref_d = np.array([it[jd] for it in sel])
                    ctx.track_worst(f"scalar_type_density_rel_{nm}", float(np.max(np.abs(want_d - ref_d) / np.maximum(np.abs(ref_d), 1e-300))), 1e-3)
                    if not np.all(np.abs(want_d - ref_d) <= 1e-3 * np.abs(ref_d) + 1e-300):
                        i = int(np.argmax(np.abs(want_d - ref_d) / np.maximum(np.abs(ref_d), 1e-300)))
                        ctx.violation("f64-logic", f"detector {det_alt} km [{nm}]: run() with numpy scalars gives density {want_d[i]!r}, with Python floats {ref_d[i]!r} for the same event (more than scalar-type rounding)", {"det_alt": det_alt, "path": "scalar-type"})
                    bad = np.flatnonzero(~((dB == want_d) & (cB == want_c))) if dB.shape == want_d.shape else np.zeros(1, int)
                    if bad.size:
                        i = int(bad[0])
                        b_, a_, e_ = sel[i][:3]
                        ctx.violation("clamp" if b_ < math.radians(1.0) else "f64-logic", f"detector {det_alt} km [{nm}]: the batch call gives (density {dB[i] if dB.size > i else None!r}, angle {cB[i] if cB.size > i else None!r}) for beta={math.degrees(b_):.4f} deg, alt={a_:.4f} km, E={e_:.4g}x100PeV; the same event through run() gives ({want_d[i]!r}, {want_c[i]!r}) ({bad.size} of {len(sel)} events)", {"det_alt": det_alt, "beta": float(b_).hex(), "alt": float(a_).hex(), "E100PeV": float(e_).hex(), "path": "batch"})
        # ---- input dtypes on the batch path: the same (exactly representable) values as half / single
        #      precision and integer arrays give what the float64 arrays give
        import contextlib as _cl
        import io as _io

        import dask as _dask

        base_in = [np.radians(np.array([10.0, 30.0])), np.array([5.0, 2.0]), np.array([1.0, 100.0]), np.zeros(2), np.zeros(2)]
        try:
            with _dask.config.set(scheduler="synchronous"), _cl.redirect_stdout(_io.StringIO()):
                d_w, c_w = (np.asarray(x, dtype=np.float64) for x in k32(*[x.copy() for x in base_in]))
            for nm_, idx_, dt_ in (("float16 shower energy", 2, np.float16), ("float32 shower energy", 2, np.float32), ("int64 shower energy", 2, np.int64), ("int64 decay altitude", 1, np.int64), ("float32 decay altitude", 1, np.float32)):
                arrs = [x.copy() for x in base_in]
                arrs[idx_] = arrs[idx_].astype(dt_)
                ctx.count("dtype")
                try:
                    with _dask.config.set(scheduler="synchronous"), _cl.redirect_stdout(_io.StringIO()):
                        d_g, c_g = (np.asarray(x, dtype=np.float64) for x in k32(*arrs))
                    if not (d_g.shape == d_w.shape and np.all(np.abs(d_g - d_w) <= 1e-4 * np.abs(d_w)) and np.all(np.abs(c_g - c_w) <= 1e-4 * np.abs(c_w))):
                        ctx.violation("dtype", f"detector {det_alt} km: the batch call with {nm_} gives density {d_g.tolist()}, angle {c_g.tolist()}; the same numbers as float64 give {d_w.tolist()}, {c_w.tolist()}", {"det_alt": det_alt, "case": nm_})
                except Exception as ex:
                    ctx.exception("dtype", f"detector {det_alt} km: the batch call with {nm_} raised", ex, {"det_alt": det_alt, "case": nm_})
        except Exception as ex:
            ctx.exception("raises", "CphotAng.__call__ raised on two in-domain events", ex, {"det_alt": det_alt})
        ctx.obs["_f32_rel_devs"] = [float(x) for x in devs]
        ctx.obs["_zsteps_tuples"] = [[float(x).hex() for x in t] for t in tuples[:: max(1, len(tuples) // 400)]]
    finally:
        cphotang.cppzsteps = base


def sanitizer(ctx, tuples_hex, label="recorded"):
    """Run the ASan+UBSan build of the working tree's zsteps.cpp on tuples (hex floats)."""
    lines = [" ".join(t) for t in tuples_hex] + inject.boundary_grid_lines()
    r = inject.run_sanitized(lines)
    if r.get("missing") or r.get("timeout"):
        ctx.inconclusive_because("sanitizer build of zsteps.cpp missing or timed out")
        return False
    ctx.count("sanitizer", len(lines))
    ctx.observe(f"sanitizer_run_{label}", {"tuples": len(lines), "sanitized_exit": r["exit"], "sanitized_output": r["out"], "plain_output": r["plain_out"]})
    if r["report"]:
        ctx.violation("sanitizer", f"ASan/UBSan report in zsteps.cpp (exit {r['exit']}): {r['stderr'][:700]}", {"stderr": r["stderr"][:3000]})
        return False
    if r["out"] != r["plain_out"] or not r["out"]:
        ctx.violation("sanitizer", f"sanitized and plain builds of zsteps.cpp disagree: '{r['out']}' vs '{r['plain_out']}'", {})
        return False
    return True


def run(ctx):
    rng = ctx.subrng("c06")
    if ctx.thorough():
        pts = design_points(20, 16, 20)
        nrand = 6000
    else:
        pts = design_points(6, 5, 8)
        nrand = 700
    rnd = [(float(rng.uniform(0, B42)), float(rng.uniform(0, 20)), float(10 ** rng.uniform(-5, 4))) for _ in range(nrand)]
    # hostile extras: faces of the domain, sub-degree angles, exact decades, layer boundaries
    extra = [(b, a, e) for b in (0.0, math.radians(0.25), math.radians(0.999999), math.radians(1.0), B42) for a in (0.0, 10.999999, 11.0, 20.0) for e in (1e-5, 1e-3, 1.0, 3.3, 1e4)]
    allpts = pts + extra + rnd
    # detector altitudes: the reference orbit mostly, others on a subsample
    work = {525.0: [], 33.0: [], 1000.0: []}
    if ctx.thorough():
        work.update({100.0: [], 36000.0: [], 21.0: []})
    others = [a_ for a_ in work if a_ != 525.0]
    for i, p in enumerate(allpts):
        work[525.0 if i % 4 else others[(i // 4) % len(others)]].append(p)
    for p in extra[:: 3]:
        work[33.0].append(p)
    # pre-flight: the sanitized build on the boundary grid and on harness-generated in-domain tuples,
    # *before* any native code is executed in-process
    pre = []
    f32 = lambda x: float(np.float32(x)).hex()
    for (b, a, e) in allpts[:: max(1, len(allpts) // 300)]:
        stv = float(np.float32(math.sin(math.asin(6378.14 / (6378.14 + 525.0) * math.cos(max(b, math.radians(1.0)))))))
        pre.append([float(a).hex(), float(stv).hex(), f32(6378.14), f32(65.0), f32(525.0), f32(0.1), f32(3.1415926)])
    if not sanitizer(ctx, pre, "preflight"):
        ctx.require("sanitizer")
        return ctx.finish(rule="sanitizer pre-flight only (a report stops the run before native code is loaded in-process)", assumptions=["clang ASan+UBSan"])
    nsh = 16
    payloads = [{"work": [(da, ps[i::nsh]) for da, ps in work.items()]} for i in range(nsh)]
    core.run_shards(ctx, "nssmon.checks.c06", "shard", payloads, workers=nsh, timeout=ctx.pick(1500, 7000))
    devs = ctx.obs.pop("_f32_rel_devs", [])
    tuples_hex = ctx.obs.pop("_zsteps_tuples", [])
    if devs:
        med = float(np.median(devs))
        ctx.count("f32-median")
        ctx.track_worst("f32_median_density_rel", med, 0.005)
        ctx.observe("f32_density_rel_quantiles", {"n": len(devs), "median": med, "p90": float(np.quantile(devs, 0.9)), "max": float(np.max(devs))})
        if not med <= 0.005:
            ctx.violation("f32-band", f"median relative density deviation of the production kernel from the reference is {med:.4%} over {len(devs)} events (limit 0.5 %)", {"median": med})
    if ctx.want("sanitizer") or ctx.only is None:
        sanitizer(ctx, tuples_hex)
    ctx.observe("zsteps_so_matches_source", inject.so_matches_source())
    for m in ("dtype", "batch-path", "f32-band", "f64-logic", "clamp", "stepping", "stepping-vs-reference", "sanitizer", "f32-median"):
        ctx.require(m)
    return ctx.finish(
        rule="stratified grid over [0,42 deg] x [0,20 km] x [1e-5,1e4] x 100 PeV incl. all faces, hostile extras (0, 0.25, 0.999999, 1 deg; 10.999999/11/20 km; exact decades) and seeded random points; detector altitudes 525 km (3/4), 33 km and 1000 km (thorough: also 21, 100 and 36000 km); a case is a distinct (detector, beta, altitude, energy); energies within 1e-9 of a power of ten are excluded from the double-precision comparison only (int(log10 E) is a legitimate discontinuity)",
        assumptions=["the reference (cphot_ref, DESIGN Appendix A) is the model the property names", "libm / numpy elementary functions", "clang's sanitizers on the shim build of the current zsteps.cpp; a clean run is 'no report on N tuples', not memory safety", "the prebuilt zsteps extension cannot be rebuilt here; every kernel run uses the function compiled from the working tree's source (zsteps_so_matches_source is an observation)"],
    )
