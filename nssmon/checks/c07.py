"""C07 — tau kinematics and decay point are physical and geometrically consistent.

icontract post-conditions on the real ``Taus.__call__`` and ``EAS.altDec`` recompute every
output from the inputs with independent constants (m_tau = 1.77686 GeV,
c = 299 792.458 km/s, tau0 = 2.903e-13 s) and explicit-vector geometry; the random
numbers drawn internally are seen through the RNG spy / supplied by the RNG stub.

  lorentz      gamma == E / m_tau, gamma >= 1
  speed        beta_tau == sqrt(1 - 1/gamma^2), 0 < beta_tau <= 1 (1 only by rounding)
  shower       E_shower == etau_frac * E / 1e8
  energy       m_tau < E_tau <= E_nu (hostile u drives the smallest reachable energies)
  lendec       lenDec == -gamma beta c tau0 ln(u) >= 0, non-increasing in u
  altdec       altDec == altitude at lenDec along the straight line (explicit vectors), >= 0
  monotone     altDec non-decreasing in lenDec and in emergence angle
"""
import numpy as np

from .. import rngctl
from ..oracles import geom_ref as G
from ..oracles import tables_ref as T

LEVEL = "exploration"
M_TAU = 1.77686
C_KM_S = 299792.458
TAU0 = 2.903e-13
RT = 1e-12


class PostBroken(Exception):
    pass


def run(ctx):
    import icontract
    from nuspacesim.config import NssConfig
    from nuspacesim.simulation.eas_optical.eas import EAS
    from nuspacesim.simulation.taus.taus import Taus

    rng = ctx.subrng("c07")
    fails = []
    state = {}
    ncontract = {"n": 0}

    def rel(a, b):
        return np.abs(a - b) / np.maximum(np.abs(b), 1e-300)

    def taus_post(result, betas, log_e_nu):
        ncontract["n"] += 1
        tauBeta, tauLorentz, tauEnergy, showerEnergy, tauExitProb = (np.asarray(x) for x in result)
        frac = state["frac"]
        n = betas.size
        ok = True
        if not all(x.shape == (n,) for x in (tauBeta, tauLorentz, tauEnergy, showerEnergy, tauExitProb)):
            fails.append(("shape", "output shapes differ from input", 0))
            return False
        g = tauEnergy / M_TAU
        r = rel(tauLorentz, g)
        ctx.count("lorentz", n)
        bad = ~(r <= RT) | ~(tauLorentz >= 1.0)
        if bad.any():
            i = int(np.flatnonzero(bad)[0])
            fails.append(("lorentz", f"gamma={tauLorentz[i]!r} for E_tau={tauEnergy[i]!r} GeV (E/m = {g[i]!r})", i))
            ok = False
        with np.errstate(invalid="ignore", divide="ignore"):
            bt = np.sqrt((tauLorentz - 1.0) * (tauLorentz + 1.0)) / tauLorentz
        ctx.count("speed", n)
        rounds_to_one = 1.0 / tauLorentz**2 < 2.0**-53
        bad = ~(rel(tauBeta, bt) <= RT) | ~(tauBeta > 0) | ~(tauBeta <= 1.0) | ((tauBeta == 1.0) & ~rounds_to_one)
        if bad.any():
            i = int(np.flatnonzero(bad)[0])
            fails.append(("speed", f"speed={tauBeta[i]!r} for gamma={tauLorentz[i]!r} (sqrt(1-1/gamma^2) = {bt[i]!r})", i))
            ok = False
        ctx.count("shower", n)
        want = frac * tauEnergy / 1e8
        if not np.all(rel(showerEnergy, want) <= RT):
            i = int(np.argmax(rel(showerEnergy, want)))
            fails.append(("shower", f"showerEnergy={showerEnergy[i]!r}, etau_frac*E/1e8 = {want[i]!r} (etau_frac={frac})", i))
            ok = False
        ctx.count("energy", n)
        enu = 10.0**log_e_nu
        bad = ~(tauEnergy > M_TAU) | ~(tauEnergy <= enu * (1 + 1e-12)) | ~np.isfinite(tauEnergy)
        if bad.any():
            i = int(np.flatnonzero(bad)[0])
            fails.append(("energy", f"E_tau={tauEnergy[i]!r} GeV for E_nu={enu[i]!r} GeV at beta={betas[i]!r}", i))
            ok = False
        return ok

    def alt_post(result, beta, tauBeta, tauLorentz, u=None):
        ncontract["n"] += 1
        altDec, lenDec = (np.asarray(x) for x in result)
        uu = state.get("u_seen") if u is None else np.asarray(u)
        ok = True
        n = beta.size
        if uu is not None and uu.size == n:
            ctx.count("lendec", n)
            want = tauLorentz * tauBeta * C_KM_S * TAU0 * (-np.log(uu))
            with np.errstate(invalid="ignore"):
                r = np.where(want == 0, np.abs(lenDec), np.where(np.isinf(want), np.where(lenDec == want, 0.0, np.inf), rel(lenDec, want)))
            bad = ~(r <= RT) | ~(lenDec >= 0)
            if bad.any():
                i = int(np.flatnonzero(bad)[0])
                fails.append(("lendec", f"lenDec={lenDec[i]!r} km for gamma={tauLorentz[i]!r}, speed={tauBeta[i]!r}, u={uu[i]!r}; -gamma beta c tau0 ln u = {want[i]!r}", i))
                ok = False
        ctx.count("altdec", n)
        beta = state.get("beta_pristine", beta) if state.get("beta_pristine") is not None and state["beta_pristine"].shape == beta.shape else beta
        wa = G.altitude_along(G.R_ASTROPY, lenDec, beta)
        err = np.abs(altDec - wa)
        tol = 1e-9 + 1e-9 * np.abs(wa)
        ctx.track_worst("altdec_abs_km", np.nanmax(np.where(np.isfinite(wa), err / tol, 0)) * 1e-9 if n else 0, 1e-9)
        bad = (~(err <= tol) & np.isfinite(wa)) | ~(altDec >= 0) | (np.isinf(wa) & (altDec != wa))
        if bad.any():
            i = int(np.flatnonzero(bad)[0])
            fails.append(("altdec", f"altDec={altDec[i]!r} km at lenDec={lenDec[i]!r} km, beta={beta[i]!r}; explicit-vector altitude {wa[i]!r}", i))
            ok = False
        return ok

    call_taus = icontract.ensure(taus_post, error=PostBroken)(Taus.__call__)
    call_alt = icontract.ensure(alt_post, error=PostBroken)(EAS.altDec)

    def report(where, wit):
        for key, what, i in fails:
            ctx.violation(key, f"{where}: event {i}: {what}", dict(wit, event=i))
        fails.clear()

    nper = ctx.pick(12_000, 250_000)
    b42 = float(np.radians(42.0))
    for version in (1, 2, 3):
        (cdat, (axE, axB, axZ), _), _ = T.load_tau_tables(version)
        for frac in (1e-3, 0.5, 1.0):
            cfg = NssConfig()
            cfg.simulation.tau_shower.table_version = str(version)
            cfg.simulation.tau_shower.etau_frac = frac
            tau = Taus(cfg)
            eas = EAS(cfg)
            state["frac"] = frac
            for mode in ("hostile", "random"):
                n = nper // 6
                loge = rng.uniform(6, 12, n)
                loge[: n // 8] = 6.0
                loge[n // 8 : n // 6] = rng.choice(axE, n // 6 - n // 8)
                beta = rng.uniform(0, b42, n)
                beta[:4] = [0.0, b42, np.nextafter(b42, 0), axB[0]]
                beta[4 : n // 10] = rng.choice(axB, n // 10 - 4)
                beta[n // 10 : n // 8] = b42
                # the pipeline hands the *same* emergence-angle array to the tau stage and then to the
                # decay stage: keep pristine copies for the oracles and pass the same objects on
                beta[4 + n // 8 : 4 + n // 8 + n // 20] = rng.uniform(0, axB[0], n // 20)  # below the tables' floor
                beta_pristine, loge_pristine = beta.copy(), loge.copy()
                wit = {"version": version, "etau_frac": frac, "mode": mode}
                try:
                    if mode == "hostile":
                        # tiny / huge uniform numbers drive the extreme energy fractions
                        src = rngctl.cycling(np.array([0.0, 5e-324, 1e-300, 1e-12, 1e-6, 0.5, 1 - 1e-6, 1 - 1e-12, 0.999999999999999, 1 - 2.0**-53]))
                        with rngctl.stub(src):
                            res = call_taus(tau, beta, loge)
                    else:
                        np.random.seed(int(rng.integers(2**31)))
                        res = call_taus(tau, beta, loge)
                except PostBroken:
                    report(f"Taus v{version} etau_frac={frac} [{mode}]", wit)
                    continue
                except Exception as e:
                    ctx.exception("raises", f"Taus.__call__ v{version} raised on in-domain input [{mode}]", e, wit)
                    continue
                tauBeta, tauLorentz, tauEnergy, showerEnergy, _ = res
                state["beta_pristine"] = beta_pristine
                ctx.count("inputs", n)
                if beta.tobytes() != beta_pristine.tobytes() or loge.tobytes() != loge_pristine.tobytes():
                    k_ = int(np.flatnonzero(beta != beta_pristine)[0]) if (beta != beta_pristine).any() else 0
                    ctx.violation("inputs-modified", f"Taus.__call__ v{version} modified the emergence angles / energies it was given (event {k_}: {beta_pristine[k_]!r} -> {beta[k_]!r}); the decay stage then works on the wrong angle", wit)
                ctx.distinct.add_rows(np.full(n, version), np.full(n, frac), loge, beta, tauEnergy)
                ctx.track_worst("min_tau_energy_over_mass_inverse", M_TAU / float(np.min(tauEnergy)), 1.0)
                # ---- decay point
                try:
                    if mode == "hostile":
                        u = np.resize(np.concatenate([rngctl.HOSTILE_UNIT, rng.uniform(0, 1, 50)]), n)
                        rng.shuffle(u)
                        # u = 0 is an infinite decay length; together with an emergence angle of exactly 0
                        # the altitude formula meets inf * 0 (observation O7): that double coincidence is left out
                        u[(u == 0.0) & (beta_pristine == 0.0)] = 5e-324
                        u0 = u.copy()
                        altDec, lenDec = call_alt(eas, beta, tauBeta, tauLorentz, u)
                        if u.tobytes() != u0.tobytes():
                            ctx.violation("inputs-modified", "EAS.altDec modified the random numbers it was given", wit)
                    else:
                        np.random.seed(int(rng.integers(2**31)))
                        with rngctl.spy() as sp:
                            state["u_seen"] = None
                            # observe first, then judge: the contract needs the numbers drawn inside
                            altDec, lenDec = EAS.altDec(eas, beta, tauBeta, tauLorentz)
                        dr = sp.draws()
                        state["u_seen"] = np.ravel(dr[0]) if len(dr) == 1 else None
                        if state["u_seen"] is None:
                            ctx.observe("altDec_draw_structure", f"{len(dr)} draw calls")
                        if not alt_post((altDec, lenDec), beta, tauBeta, tauLorentz, None):
                            raise PostBroken()
                        ctx.count("lendec-internal-generator", n if state["u_seen"] is not None else 0)
                except PostBroken:
                    report(f"EAS.altDec v{version} etau_frac={frac} [{mode}]", wit)
                    continue
                except Exception as e:
                    ctx.exception("raises", f"EAS.altDec raised on in-domain input [{mode}]", e, wit)
                    continue
                if version == 3 and frac == 0.5 and mode == "random":
                    for i in range(2):
                        ctx.sample({"log_e_nu": float(loge[i]), "beta_rad": float(beta[i]), "E_tau": float(tauEnergy[i]), "gamma": float(tauLorentz[i]), "speed": float(tauBeta[i]), "lenDec_km": float(lenDec[i]), "altDec_km": float(altDec[i])})
    # ---- the diagnostic plots are observers of Taus.__call__ (energies, Lorentz factors, speeds) --------
    from .. import plotobs

    for version in (1, 3):
        cpl = NssConfig()
        cpl.simulation.tau_shower.table_version = str(version)
        bpl = rng.uniform(0, b42, 400)
        bpl[:40] = rng.uniform(0, np.radians(0.1), 40)
        lpl = rng.uniform(6, 12, 400)

        def _call(o, kw, b_, le_):
            with rngctl.stub(rngctl.constant(0.5625)):
                return o(b_, le_, **kw)

        plotobs.check_stage(ctx, f"Taus.__call__ v{version}", lambda: Taus(cpl), _call, (bpl, lpl), "energy")
    # ---- monotonicity ladders on EAS.altDec ------------------------------------------------------
    state["beta_pristine"] = None
    cfg = NssConfig()
    eas = EAS(cfg)
    nl = ctx.pick(400, 4000)
    for k in range(nl):
        g = float(10 ** rng.uniform(3.3, 11.8) / M_TAU)
        bt = float(np.sqrt(1 - 1 / g**2))
        be = float(rng.uniform(0, b42)) if k % 5 else float(rng.choice([0.0, b42]))
        L = 48
        us = np.sort(np.concatenate([rngctl.HOSTILE_UNIT[1:], rng.uniform(0, 1, L - rngctl.HOSTILE_UNIT.size + 1)]))
        try:
            a, l = eas.altDec(np.full(L, be), np.full(L, bt), np.full(L, g), us)
            ctx.count("monotone", 2 * (L - 1))
            if np.any(np.diff(l) > 0):
                i = int(np.flatnonzero(np.diff(l) > 0)[0])
                ctx.violation("lendec-monotone", f"lenDec rises from {l[i]!r} to {l[i+1]!r} as u rises from {us[i]!r} to {us[i+1]!r} (gamma={g!r})", {"gamma": g, "beta": be})
            if np.any(np.diff(a) > 1e-9):
                i = int(np.flatnonzero(np.diff(a) > 1e-9)[0])
                ctx.violation("altdec-monotone", f"altDec rises from {a[i]!r} to {a[i+1]!r} while lenDec falls from {l[i]!r} to {l[i+1]!r} (beta={be!r})", {"gamma": g, "beta": be})
            # in angle, at fixed length
            bs = np.sort(np.concatenate([[0.0, b42], rng.uniform(0, b42, L - 2)]))
            uu = np.full(L, float(rng.uniform(1e-6, 1)))
            a2, l2 = eas.altDec(bs, np.full(L, bt), np.full(L, g), uu)
            ctx.count("monotone", L - 1)
            if np.any(np.diff(a2) < -1e-9):
                i = int(np.flatnonzero(np.diff(a2) < -1e-9)[0])
                ctx.violation("altdec-monotone", f"altDec falls from {a2[i]!r} to {a2[i+1]!r} as the emergence angle rises from {bs[i]!r} to {bs[i+1]!r} (lenDec={l2[i]!r})", {"gamma": g})
        except Exception as e:
            ctx.exception("raises", "EAS.altDec raised on a monotonicity ladder", e, {"gamma": g, "beta": be})
    # ---- input dtypes: the same kinematics as half / single precision arrays (values exactly representable)
    b_ = np.array([0.5, 0.25, 0.125, 0.0])
    g_ = np.array([2000.0, 4096.0, 30000.0, 65504.0])
    u_ = np.array([0.5, 0.25, 0.75, 0.125])
    u_ = np.array([0.5, 0.25, 0.75, 0.125, 0.9990234375, 0.0999755859375, 0.7001953125, 0.765625][:4])
    u8 = np.array([0.9990234375, 0.0999755859375, 0.7001953125, 0.765625])  # exact in half precision, ln not
    for dt in (np.float16, np.float32):
        gd = g_.astype(dt)
        tb64 = np.sqrt(1.0 - 1.0 / gd.astype(np.float64) ** 2)
        # which of the arrays arrive in the narrow type: the kinematics (D33), the random numbers (D44), all
        for which, uu in (("kinematics", u_), ("random numbers", u8), ("kinematics and random numbers", u8)):
            ctx.count("dtype")
            kin = (lambda x: x.astype(dt)) if "kinematics" in which else (lambda x: x.astype(dt).astype(np.float64))
            ucast = uu.astype(dt) if "random" in which else uu
            try:
                a_d, l_d = (np.asarray(x, dtype=np.float64) for x in eas.altDec(kin(b_), kin(tb64), kin(g_), ucast))
                a_w, l_w = (np.asarray(x, dtype=np.float64) for x in eas.altDec(b_.astype(dt).astype(np.float64), tb64.astype(dt).astype(np.float64), gd.astype(np.float64), ucast.astype(np.float64)))
                if not (np.all(np.abs(l_d - l_w) <= 1e-12 * np.abs(l_w)) and np.all(np.abs(a_d - a_w) <= 1e-9 + 1e-9 * np.abs(a_w))):
                    ctx.violation("dtype", f"EAS.altDec with {np.dtype(dt).name} {which} gives lenDec {l_d.tolist()}, altDec {a_d.tolist()}; the same numbers as float64 give {l_w.tolist()}, {a_w.tolist()}", {"dtype": np.dtype(dt).name, "which": which})
            except Exception as e:
                ctx.exception("dtype", f"EAS.altDec with {np.dtype(dt).name} {which} raised", e, {"dtype": np.dtype(dt).name})
    ctx.count("contracts", ncontract["n"])
    for m in ("dtype", "plots", "lorentz", "speed", "shower", "energy", "inputs", "lendec", "lendec-internal-generator", "altdec", "monotone", "contracts"):
        ctx.require(m)
    return ctx.finish(
        rule="3 table versions x etau_frac {1e-3, .5, 1} x {hostile, random}: logE in [6,12] (incl. exactly 6 and table nodes), beta in [0, 42 deg] incl. 0, exactly 42 deg and table nodes; energy draws through the RNG stub (5e-324 .. 1-1e-15) or the real generator; decay numbers in (0,1] incl. 5e-324 and exactly 1; a case is a distinct (version, frac, logE, beta, E_tau)",
        assumptions=["m_tau = 1.77686 GeV, c = 299792.458 km/s, tau0 = 2.903e-13 s", "Earth radius for the decay altitude is astropy's R_earth = 6378.1 km (the geometry stage's radius)", "speed exactly 1.0 is accepted only where 1/gamma^2 < 2^-53 (rounding)"],
    )
