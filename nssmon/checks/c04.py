"""C04 — tau energy sampling is the exact inverse transform of the propagation tables.

Real entry points: ``Taus.tau_energy(betas, log_e_nu, u)`` and
``grid_cdf_sampler(grid)(log_e_nu, beta, u)``. Oracle: tables read with h5py, own
explicit-neighbour bilinear blend of the four neighbouring CDF rows, forward
evaluation F(z) by bracket search, own inversion that knows plateaus.

  forward     |F(z | E, beta) - u| <= 1e-12               (deciding)
  inverse     z inside [inv(u - 1e-12), inv(u + 1e-12)] of the own inversion
  range       z inside the tabulated fraction range, E_tau <= E_nu
  monotone    z non-decreasing in u at fixed (E, beta)
  low         beta < min uses the minimum-angle distribution
  high        beta > max gives a negligible (0 < z <= 1e-5), finite energy
  reject      an out-of-table energy raises (every angle; Taus.tau_energy and grid_cdf_sampler)
  explicit    explicit u == internal generator fed the same numbers (constant RNG stub on
              mixed batches of every size; RNG spy on single-event calls)
"""
import contextlib
import io

import math

import numpy as np

from .. import rngctl
from ..oracles import tables_ref as T

LEVEL = "exploration"
FTOL = 1e-12
SIZES = [1, 2, 8191, 8192, 8193, 20000]


def make_taus(version):
    from nuspacesim.config import NssConfig
    from nuspacesim.simulation.taus.taus import Taus

    c = NssConfig()
    c.simulation.tau_shower.table_version = str(version)
    return Taus(c)


def gen_points(rng, axE, axB, n):
    """(logE, beta) mixing nodes, cell centres, cell edges and random interior points."""
    kind = rng.integers(0, 5, n)
    loge = rng.uniform(6, 12, n)
    beta = rng.uniform(axB[0], axB[-1], n)
    i = rng.integers(0, axE.size - 1, n)
    j = rng.integers(0, axB.size - 1, n)
    m = kind == 0  # nodes
    loge[m], beta[m] = axE[i[m]], axB[j[m]]
    m = kind == 1  # cell centres
    loge[m], beta[m] = 0.5 * (axE[i[m]] + axE[i[m] + 1]), 0.5 * (axB[j[m]] + axB[j[m] + 1])
    m = kind == 2  # cell edges: one coordinate on a node
    loge[m] = axE[i[m]]
    m = kind == 3
    beta[m] = axB[j[m]]
    return loge, beta


# u ranges over the generator's whole range [0, 1): np.random.uniform can return 0.0 and 1 - 2^-53,
# and stratified / quasi-random sequences start at exactly 0. A blended CDF row ends a few ulps
# below 1, so the largest u lie (by rounding) above the row's last value: the inverse there is
# the last node. (Before fix D14 the sampler raised for u = 0 and for u above the blended row's
# last value; the check used to stay 2e-15 inside the row's range and never saw it.)
U_MAX = 1.0 - 2.0**-53


def lo_inside(rows):
    return np.zeros(rows.shape[0])


def hi_inside(rows):
    return np.full(rows.shape[0], U_MAX)


def classify(beta, bmin, bmax):
    return np.where(beta < bmin, 0, np.where(beta > bmax, 2, 1))  # 0 low, 1 valid, 2 high


def run(ctx):
    from nuspacesim.utils.cdf import grid_cdf_sampler
    from nuspacesim.utils.grid import NssGrid

    rng = ctx.subrng("c04")
    npts = ctx.pick(50_000, 1_500_000)
    for version in (1, 2, 3):
        (cdat, (axE, axB, axZ), names), _ = T.load_tau_tables(version)
        if names != ["log_e_nu", "beta_rad", "e_tau_frac"]:
            ctx.inconclusive_because(f"unexpected cdf axis names {names}")
            continue
        bmin, bmax = float(axB[0]), float(axB[-1])
        tau = make_taus(version)
        sampler = grid_cdf_sampler(tau.tau_cdf_grid)

        def judge(loge, beta, u, E_tau, where, z_direct=None):
            """Apply forward/inverse/range/low/high monitors to one batch."""
            cls = classify(beta, bmin, bmax)
            z = E_tau / (10.0**loge) if z_direct is None else z_direct
            look = cls != 2
            if look.any():
                b_eff = np.clip(beta[look], bmin, bmax)
                rows = T.bilinear(cdat, axE, axB, loge[look], b_eff)
                zz, uu = z[look], u[look]
                F = T.forward_cdf(rows, axZ, zz)
                res = np.abs(F - uu)
                ctx.count("forward", int(look.sum()))
                ctx.count("low", int((cls == 0).sum()))
                ctx.track_worst("forward_residual", np.nanmax(res), FTOL)
                bad = ~(res <= FTOL)
                # inverse band
                ulo = np.maximum(uu - FTOL, rows[:, 0])
                uhi = np.minimum(uu + FTOL, rows[:, -1])
                _, zlo, _ = T.invert_rows(rows, axZ, np.maximum(ulo, np.nextafter(rows[:, 0], 1)))
                _, _, zhi = T.invert_rows(rows, axZ, np.minimum(uhi, np.nextafter(rows[:, -1], 0)))
                # at the two ends of the row the inverse is a whole plateau: every z from the first node
                # that reaches the row's last value up to the last node (and likewise at the start)
                zhi = np.where(uu + FTOL >= rows[:, -1], axZ[-1], zhi)
                zlo = np.where(uu - FTOL <= rows[:, 0], axZ[0], zlo)
                ctx.count("inverse", int(look.sum()))
                badinv = ~((zz >= zlo * (1 - 1e-10)) & (zz <= zhi * (1 + 1e-10)))
                # range
                ctx.count("range", int(look.sum()))
                badrng = ~((zz >= axZ[0] * (1 - 1e-12)) & (zz <= 1.0 + 1e-12) & np.isfinite(zz))
                for name, msk in (("forward", bad), ("inverse", badinv), ("range", badrng)):
                    if msk.any():
                        k = int(np.flatnonzero(msk)[0])
                        idx = int(np.flatnonzero(look)[k])
                        key = "low" if (cls[idx] == 0 and name != "range") else name
                        ctx.violation(
                            key,
                            f"table v{version} [{where}]: event {idx} of {beta.size} (logE={loge[idx]!r}, beta={beta[idx]!r}, u={u[idx]!r}) -> z={z[idx]!r}; F(z)={F[k]!r}, own inverse band [{zlo[k]!r}, {zhi[k]!r}] ({int(msk.sum())} events fail '{name}')",
                            {"version": version, "where": where, "event": idx, "batch": int(beta.size), "loge": float(loge[idx]).hex(), "beta": float(beta[idx]).hex(), "u": float(u[idx]).hex(), "z": float(z[idx])},
                        )
            hi = cls == 2
            if hi.any():
                ctx.count("high", int(hi.sum()))
                zh = z[hi]
                badh = ~((zh > 0) & (zh <= 1e-5) & np.isfinite(zh))
                if badh.any():
                    k = int(np.flatnonzero(hi)[np.flatnonzero(badh)[0]])
                    ctx.violation("high", f"table v{version} [{where}]: beta={beta[k]!r} above the tabulated maximum gives z={z[k]!r} (not a negligible finite energy)", {"version": version, "beta": float(beta[k]).hex(), "loge": float(loge[k]).hex()})

        # ---------- batches of every size and composition through Taus.tau_energy(u) ----------
        comps = ["valid", "low", "high", "mixed", "mixed-mostly-high", "mixed-rare-high"]
        done = 0
        bi = 0
        # energy layouts: scattered (every event its own energy), one tabulated energy for the whole
        # batch (what a mono-energetic run passes), consecutive blocks of constant tabulated energies
        # (an energy scan; blocks of 8192 coincide with the sampler's internal chunks), sorted
        elayouts = ["scattered", "mono", "blocks-8192", "blocks-small", "sorted"]
        plan = [(sz, cp, "scattered") for cp in comps for sz in SIZES]  # the full cross product, every run
        plan += [(sz, cp, el) for cp in ("valid", "mixed") for sz in (8193, 20000) for el in elayouts[1:]]
        plan += [(65536, "valid", "scattered"), (65537, "mixed", "scattered"), (131072, "valid", "blocks-small")]  # seams of larger blocks
        while done < npts or bi < len(plan):
            if bi < len(plan):
                size, comp, elay = plan[bi]
            else:
                size, comp, elay = int(rng.choice(SIZES + [3, 17, 100, 1000])), comps[int(rng.integers(len(comps)))], elayouts[int(rng.integers(len(elayouts)))]
            bi += 1
            loge, beta = gen_points(rng, axE, axB, size)
            if elay == "mono":
                loge[:] = axE[int(rng.integers(axE.size))]
            elif elay.startswith("blocks"):
                bl = 8192 if elay == "blocks-8192" else int(rng.choice([1, 100, 4096, max(1, size // 3)]))
                nb = -(-size // bl)
                loge = np.repeat(rng.permutation(axE)[np.arange(nb) % axE.size], bl)[:size].astype(np.float64)
            elif elay == "sorted":
                loge = np.sort(loge)
            comp_tag = comp
            comp = comp  # (the angle composition below is independent of the energy layout)
            r = rng.random(size)
            if comp == "low":
                beta = rng.uniform(0, bmin, size)
                beta[:1] = 0.0
            elif comp == "high":
                beta = rng.uniform(bmax, np.pi / 2, size)
                beta[:1] = np.pi / 2
            elif comp.startswith("mixed"):
                ph = {"mixed": 0.25, "mixed-mostly-high": 0.8, "mixed-rare-high": 0.002}[comp]
                beta = np.where(r < ph, rng.uniform(np.nextafter(bmax, 1), np.pi / 2, size), np.where(r > 0.85, rng.uniform(0, bmin, size), beta))
                if size >= 8:
                    beta[[0, 1, 2, 3]] = [np.nextafter(bmax, 1), bmax, np.nextafter(bmin, 0), bmin]
            cls = classify(beta, bmin, bmax)
            # u over the whole of [0, 1 - 2^-53], incl. hostile values and plateau (node) values
            rows = T.bilinear(cdat, axE, axB, loge, np.clip(beta, bmin, bmax))
            u = rng.uniform(0, 1, size)
            hk = rng.random(size)
            u = np.where(hk < 0.05, rng.choice(rngctl.HOSTILE_UNIT[:-1], size), u)
            nodev = rows[np.arange(size), rng.integers(0, axZ.size, size)]
            u = np.where((hk > 0.9), nodev, u)
            u = np.clip(u, lo_inside(rows), hi_inside(rows))
            b0, e0, u0 = beta.copy(), loge.copy(), u.copy()
            try:
                E_tau = tau.tau_energy(beta, loge, u)
            except Exception as e:
                ctx.exception("raises", f"table v{version}: tau_energy(explicit u) raised on a {comp} batch of {size}", e, {"version": version, "size": size, "comp": comp, "classes": np.bincount(cls, minlength=3).tolist()})
                done += size
                continue
            if beta.tobytes() != b0.tobytes() or loge.tobytes() != e0.tobytes() or u.tobytes() != u0.tobytes():
                ctx.violation("inputs-modified", f"table v{version}: tau_energy modified its input arrays", {"version": version})
            judge(loge, beta, u, np.asarray(E_tau), f"tau_energy size={size} {comp} energies={elay}")
            ctx.distinct.add_rows(np.full(size, version), loge, beta, u)
            if version == 3 and bi <= 2:
                ctx.sample({"version": version, "batch": size, "composition": comp, "first_event": {"log_e_nu": float(loge[0]), "beta_rad": float(beta[0]), "u": float(u[0]), "E_tau_GeV": float(E_tau[0])}})
            # the order the simulation uses: exit probability first, then the energy, on the same arrays;
            # the energy of every event must be the one from pristine arrays (the exit-probability step
            # must not leave anything behind that changes which branch an angle takes)
            if size <= 8193 or size >= 65536:
                try:
                    b1, e1 = b0.copy(), e0.copy()
                    tau.tau_exit_prob(b1, e1)
                    E_seq = np.asarray(tau.tau_energy(b1, e1, u0.copy()))
                    ctx.count("pipeline", size)
                    if E_seq.tobytes() != np.asarray(E_tau).tobytes():
                        d = int(np.flatnonzero(E_seq != np.asarray(E_tau))[0])
                        ctx.violation("pipeline", f"table v{version}: after tau_exit_prob on the same arrays, tau_energy gives {E_seq[d]!r} GeV for event {d} (logE={e0[d]!r}, beta={b0[d]!r} rad, class {['below','inside','above'][int(cls[d])]}); called alone it gives {np.asarray(E_tau)[d]!r} ({comp} batch of {size})", {"version": version, "size": size, "comp": comp, "beta": float(b0[d]).hex(), "loge": float(e0[d]).hex()})
                except Exception as e:
                    ctx.exception("raises", f"table v{version}: tau_exit_prob then tau_energy raised on a {comp} batch of {size}", e, {"version": version, "size": size, "comp": comp})
            # sampler called directly (in-table angles only: that is its contract)
            v = cls == 1
            if v.any() and size <= 8193:
                try:
                    zd = sampler(loge[v], beta[v], u[v])
                    judge(loge[v], beta[v], u[v], None, f"grid_cdf_sampler size={int(v.sum())}", z_direct=np.asarray(zd))
                    ctx.count("sampler-direct", int(v.sum()))
                except Exception as e:
                    ctx.exception("raises", f"table v{version}: grid_cdf_sampler raised on in-table input", e, {"version": version})
            # explicit u vs internal generator fed a constant
            if bi % 3 == 0:
                c = float(rng.choice([0.5, 0.123456789, 1e-9, 1 - 1e-9, 5e-324, 0.0, U_MAX]))
                c = float(np.clip(c, lo_inside(rows).max(), hi_inside(rows).min()))
                try:
                    with rngctl.stub(rngctl.constant(c)) as sp:
                        e_int = tau.tau_energy(beta, loge)
                    e_exp = tau.tau_energy(beta, loge, np.full(size, c))
                    ctx.count("explicit", size)
                    if size <= 8193:
                        with rngctl.stub(rngctl.constant(c)):
                            e_call = np.asarray(tau(b0.copy(), e0.copy())[2])
                        ctx.count("call", size)
                        if e_call.tobytes() != np.asarray(e_exp).tobytes():
                            d = int(np.flatnonzero(e_call != np.asarray(e_exp))[0])
                            ctx.violation("pipeline", f"table v{version}: Taus.__call__ with every random number equal to {c!r} returns tau energy {e_call[d]!r} GeV for event {d} (logE={e0[d]!r}, beta={b0[d]!r} rad); tau_energy with the same number gives {np.asarray(e_exp)[d]!r} ({comp} batch of {size})", {"version": version, "size": size, "comp": comp, "c": c})
                    if np.asarray(e_int).tobytes() != np.asarray(e_exp).tobytes():
                        d = int(np.flatnonzero(np.asarray(e_int) != np.asarray(e_exp))[0])
                        ctx.violation("explicit", f"table v{version}: with every random number equal to {c!r}, explicit u and the internal generator differ at event {d} ({e_exp[d]!r} vs {e_int[d]!r}) in a {comp} batch of {size}", {"version": version, "size": size, "comp": comp, "c": c})
                except Exception as e:
                    ctx.exception("raises", f"table v{version}: explicit-vs-internal comparison raised ({comp}, {size})", e, {"version": version, "size": size, "comp": comp})
            done += size

        # ---------- diagnostic plots requested: an observer, the sampled energies stay the same ------
        try:
            import matplotlib.pyplot as plt

            lp, bp = gen_points(rng, axE, axB, 400)
            lp0, bp0 = lp.copy(), bp.copy()
            with rngctl.stub(rngctl.constant(0.3125)):
                plain = [np.array(x, copy=True) for x in tau(bp.copy(), lp.copy())]
            names = ["taus_density_beta", "taus_histogram", "taus_pexit", "taus_overview"]
            with rngctl.stub(rngctl.constant(0.3125)), contextlib.redirect_stdout(io.StringIO()):
                plotted = tau(bp, lp, plot=names)
            plt.close("all")
            ctx.count("plots", 400)
            if not all(np.asarray(a).tobytes() == b.tobytes() for a, b in zip(plotted, plain)):
                k = [i for i, (a, b) in enumerate(zip(plotted, plain)) if np.asarray(a).tobytes() != b.tobytes()][0]
                ctx.violation("pipeline", f"table v{version}: Taus.__call__ with the diagnostic plots {names} requested returns a different output #{k} (first event {np.asarray(plotted[k])[0]!r} instead of {plain[k][0]!r})", {"version": version, "plots": names, "output": k})
            if lp.tobytes() != lp0.tobytes() or bp.tobytes() != bp0.tobytes():
                ctx.violation("inputs-modified", f"table v{version}: Taus.__call__ with plots requested modified its input arrays (log_e_nu[0] {lp0[0]!r} -> {lp[0]!r})", {"version": version, "plots": names})
        except Exception as e:
            ctx.exception("raises", f"table v{version}: Taus.__call__ with diagnostic plots requested raised", e, {"version": version})
        # ---------- single-event calls: RNG spy --------------------------------------------------
        nsingle = ctx.pick(150, 1500)
        le1, be1 = gen_points(rng, axE, axB, nsingle)
        be1[::7] = rng.uniform(0, bmin, be1[::7].size)
        skipped = 0
        for k in range(nsingle):
            b, e = be1[k : k + 1], le1[k : k + 1]
            np.random.seed(int(rng.integers(2**31)))
            try:
                with rngctl.spy() as sp:
                    r_int = tau.tau_energy(b, e)
                draws = np.concatenate([np.ravel(d) for d in sp.draws()]) if sp.draws() else np.zeros(0)
                if draws.size != 1:
                    skipped += 1
                    continue
                r_exp = tau.tau_energy(b, e, draws.copy())
                ctx.count("explicit-spy")
                if np.asarray(r_int).tobytes() != np.asarray(r_exp).tobytes():
                    ctx.violation("explicit", f"table v{version}: single event (logE={e[0]!r}, beta={b[0]!r}): internal generator drew {draws[0]!r} and returned {r_int[0]!r}; explicit u gives {r_exp[0]!r}", {"version": version, "loge": float(e[0]).hex(), "beta": float(b[0]).hex(), "u": float(draws[0]).hex()})
                rows1 = T.bilinear(cdat, axE, axB, e, np.clip(b, bmin, bmax))
                if lo_inside(rows1)[0] <= draws[0] <= hi_inside(rows1)[0]:
                    judge(e, b, draws, np.asarray(r_int), "single event, internal generator")
            except Exception as ex:
                ctx.exception("raises", f"table v{version}: single-event call raised", ex, {"version": version})
        ctx.observe(f"v{version}_spy_calls_skipped_draw_count_not_1", skipped)

        # ---------- monotone in u ------------------------------------------------------------------
        nl = ctx.pick(300, 3000)
        le, be = gen_points(rng, axE, axB, nl)
        be[::5] = rng.uniform(0, bmin, be[::5].size)
        L = 40
        for k in range(nl):
            row = T.bilinear(cdat, axE, axB, le[k : k + 1], np.clip(be[k : k + 1], bmin, bmax))[0]
            us = np.sort(np.clip(np.concatenate([rng.uniform(0, 1, L - 8), rng.choice(row, 8)]), lo_inside(row[None, :])[0], hi_inside(row[None, :])[0]))
            try:
                zs = tau.tau_energy(np.full(L, be[k]), np.full(L, le[k]), us) / 10.0 ** le[k]
            except Exception as ex:
                ctx.exception("raises", f"table v{version}: u-ladder raised", ex, {"version": version})
                continue
            ctx.count("monotone", L - 1)
            dz = np.diff(zs)
            if np.any(dz < -1e-12 * zs[1:]):
                i = int(np.flatnonzero(dz < -1e-12 * zs[1:])[0])
                ctx.violation("monotone", f"table v{version}: z decreases from {zs[i]!r} to {zs[i+1]!r} as u rises from {us[i]!r} to {us[i+1]!r} at (logE={le[k]!r}, beta={be[k]!r})", {"version": version, "loge": float(le[k]).hex(), "beta": float(be[k]).hex()})

        # ---------- rejection ----------------------------------------------------------------------
        for badE in [6 - 1e-9, 12 + 1e-9, 5.0, 13.0, float("nan"), float(np.nextafter(6.0, 0)), float(np.nextafter(12.0, 13))]:
            for bb in [bmin, 0.5 * (bmin + bmax), bmax, 0.0, float(np.nextafter(bmax, 4)), math.radians(60.0), math.pi / 2]:  # above the maximum as well: rejection must not depend on the angle
                for withu in (True, False):
                    b = rng.uniform(bmin, bmax, 6)
                    le_ = rng.uniform(6, 12, 6)
                    b[2], le_[2] = bb, badE
                    b[5] = 1.2  # an above-max angle in the batch too
                    ctx.count("reject")
                    try:
                        r = tau.tau_energy(b, le_, np.full(6, 0.5) if withu else None)
                        ctx.violation("reject", f"table v{version}: energy logE={badE!r} outside the table accepted (beta={bb!r}), E_tau={np.asarray(r)[2]!r}", {"version": version, "loge": repr(badE), "beta": float(bb)})
                    except Exception:
                        pass
                ctx.count("reject")
                try:
                    r = tau.tau_energy(np.array([bb]), np.array([badE]), np.array([0.5]))
                    ctx.violation("reject", f"table v{version}: single event with energy logE={badE!r} outside the table accepted (beta={bb!r}), E_tau={np.asarray(r)[0]!r}", {"version": version, "loge": repr(badE), "beta": float(bb), "single": True})
                except Exception:
                    pass
        # the sampler boundary itself (grid_cdf_sampler is an observation point of the property): one stray
        # energy among in-table ones, at every position incl. the second 8192-chunk, all-out batches, singles
        for badE in [6 - 1e-9, 12 + 1e-9, 5.0, 13.0, 12.1, float(np.nextafter(6.0, 0)), float(np.nextafter(12.0, 13))]:
            for nb, pos in ((1, 0), (6, 0), (6, 3), (6, 5), (8200, 0), (8200, 8191), (8200, 8192), (8200, 8199), (6, None)):
                b = rng.uniform(bmin, bmax, nb)
                le_ = rng.uniform(6, 12, nb)
                if pos is None:
                    le_[:] = badE
                else:
                    le_[pos] = badE
                ctx.count("reject")
                try:
                    r = sampler(le_, b, np.full(nb, 0.5))
                    ctx.violation("reject", f"table v{version}: grid_cdf_sampler accepted logE={badE!r} outside the table ({'every event' if pos is None else f'event {pos} of {nb}'}), z={np.asarray(r).ravel()[pos or 0]!r}", {"version": version, "loge": repr(badE), "n": nb, "pos": pos, "direct": True})
                except Exception:
                    pass
        # ---------- input dtypes: whole-number angles (0) and energies, single / half precision ---------
        cases_dt = [
            ("integer beta = 0", np.array([0, 0, 0]), np.array([7.0, 8.0, 10.5]), np.array([0.2, 0.5, 0.9])),
            ("int32 log_e_nu", np.radians(np.full(4, 5.0)), np.array([9, 10, 11, 12], dtype=np.int32), np.full(4, 0.5)),
            ("float32 beta and energy", np.radians(np.array([2.0, 11.0, 33.0])).astype(np.float32), np.array([6.5, 9.25, 11.75], dtype=np.float32), np.array([0.3, 0.6, 0.05])),
            ("Python lists", [0.05, 0.3], [7.5, 10.0], [0.25, 0.75]),
            # every operand in single / half precision (values exactly representable): the sampler's own
            # result buffer must not follow them
            ("float32 beta, energy and u", np.array([0.0625, 0.6875, 0.25], dtype=np.float32), np.array([6.0, 12.0, 9.5], dtype=np.float32), np.array([0.5, 0.375, 0.125], dtype=np.float32)),
            ("float16 beta, energy and u", np.array([0.0625, 0.6875, 0.25], dtype=np.float16), np.array([6.0, 12.0, 9.5], dtype=np.float16), np.array([0.5, 0.375, 2.0**-10], dtype=np.float16)),
        ]
        for nm, b_, e_, u_ in cases_dt:
            if "float" in nm and "u" in nm.split()[-1:]:
                # the sampler boundary as well
                ctx.count("dtype")
                try:
                    zg = np.asarray(sampler(np.asarray(e_), np.asarray(b_), np.asarray(u_)), dtype=np.float64)
                    zw = np.asarray(sampler(np.asarray(e_, dtype=np.float64), np.asarray(b_, dtype=np.float64), np.asarray(u_, dtype=np.float64)))
                    if not (zg.shape == zw.shape and np.all(np.abs(zg - zw) <= 1e-12 * np.abs(zw))):
                        ctx.violation("dtype", f"table v{version}: grid_cdf_sampler with {nm} gives z = {zg.tolist()}; the same numbers as float64 give {zw.tolist()}", {"version": version, "case": nm, "direct": True})
                except Exception as e:
                    ctx.exception("dtype", f"table v{version}: grid_cdf_sampler with {nm} raised", e, {"version": version, "case": nm})
            ctx.count("dtype")
            try:
                got_ = np.asarray(tau.tau_energy(np.asarray(b_), np.asarray(e_), np.asarray(u_)), dtype=np.float64)
                want_ = np.asarray(tau.tau_energy(np.asarray(b_, dtype=np.float64), np.asarray(e_, dtype=np.float64), np.asarray(u_, dtype=np.float64)))
                if not (got_.shape == want_.shape and np.all(np.abs(got_ - want_) <= 1e-12 * np.abs(want_))):
                    ctx.violation("dtype", f"table v{version}: tau_energy with {nm} gives {got_.tolist()}; the same numbers as float64 give {want_.tolist()}", {"version": version, "case": nm})
            except Exception as e:
                ctx.exception("dtype", f"table v{version}: tau_energy with {nm} raised", e, {"version": version, "case": nm})
        # ---------- memory layout: the fraction at a position depends on the numbers there, not on whether the
        #            batch is 1-d, C- or Fortran-ordered, a transposed / strided view or read-only (seeded C04-16)
        lrng = ctx.subrng("c04-layout", version)
        b2 = lrng.uniform(0.0, np.pi / 2, (6, 8))
        b2[0, :3] = [0.0, float(axB[0]), float(axB[-1])]
        e2 = lrng.uniform(6.0, 12.0, (6, 8))
        u2 = lrng.uniform(0.0, 1.0, (6, 8))
        try:
            want2 = np.asarray(tau.tau_energy(b2.ravel().copy(), e2.ravel().copy(), u2.ravel().copy())).reshape(6, 8)
            for lname, f in (("C 2-d", lambda x: x.copy()), ("Fortran 2-d", np.asfortranarray), ("transposed view", lambda x: np.ascontiguousarray(x.T).T), ("strided view", lambda x: np.repeat(np.repeat(x, 2, 0), 2, 1)[::2, ::2]), ("read-only", lambda x: (lambda y: (y.setflags(write=False), y)[1])(x.copy()))):
                ctx.count("layout", b2.size)
                bb, ee, uu = f(b2), f(e2), f(u2)
                try:
                    got2 = np.asarray(tau.tau_energy(bb, ee, uu))
                    if got2.shape != (6, 8) or not np.array_equal(got2, want2):
                        nbad = int(np.sum(got2 != want2)) if got2.shape == (6, 8) else 48
                        ctx.violation("layout", f"table v{version}: tau_energy on a {lname} batch (6, 8) differs from the same numbers as fresh 1-d arrays at {nbad} of 48 positions (e.g. {np.asarray(got2).ravel()[0]!r} vs {want2.ravel()[0]!r})", {"version": version, "layout": lname})
                    if not (np.array_equal(bb, b2) and np.array_equal(ee, e2) and np.array_equal(uu, u2)):
                        ctx.violation("layout", f"table v{version}: tau_energy modified its {lname} inputs", {"version": version, "layout": lname})
                except Exception as e:
                    ctx.exception("layout", f"table v{version}: tau_energy on a {lname} batch raised", e, {"version": version, "layout": lname})
        except Exception as e:
            ctx.exception("layout", f"table v{version}: tau_energy on a flat batch of 48 raised", e, {"version": version})
    for m in ("layout", "dtype", "pipeline", "plots", "call", "forward", "inverse", "range", "monotone", "low", "high", "reject", "explicit", "explicit-spy", "sampler-direct"):
        ctx.require(m)
    return ctx.finish(
        rule="per table version: batches of size {1,2,8191,8192,8193,20000} with energies scattered / one tabulated value / blocks of constant tabulated values (8192-aligned and not) / sorted, in compositions {all in-table, all below-min, all above-max, mixed 25 % / 80 % / 0.2 % above-max}; (logE, beta) from nodes, cell centres, cell edges and interior; u uniform on [0, 1) plus hostile values (0, denormal .. 1-2^-53) and exact node CDF values incl. the first and last of each row; a case is a distinct (version, logE, beta, u)",
        assumptions=["h5py reads the shipped tables", "F is the piecewise-linear function through the bilinearly blended node values", "'negligible' read as 0 < z <= 1e-5", "rejection of an out-of-table energy is demanded at every angle, for single events, at every batch position, and at the sampler boundary (grid_cdf_sampler) itself"],
    )
