"""C12 — neutrino energy spectrum sampling is exact and normalised.

The real ``Spectra(config)(N)`` is driven with (a) the internal generator observed by
the RNG spy and (b) the RNG stub feeding hostile uniform numbers. Oracles:
  mono        every value equals the configured log-energy (bitwise), any N
  bounds      lower <= log_e_nu <= upper (closed), finite            [icontract post-condition]
  product     |norm * weight_sum - 1| <= 1e-12                      [icontract post-condition]
  cdf         |F(10^log_e_nu) - u| <= 1e-9 with F evaluated in 50-digit decimal
              (log-uniform for index 1), or the returned log-energy within 1e-12 of the exact
              image (representability for narrow bounds), widened by 1e-14/|1-p| near p = 1
  monotone    log_e_nu non-decreasing in u
  no-raise    no exception for any valid (index, bounds, N)
"""
import decimal

import math

import numpy as np

from .. import core, rngctl

LEVEL = "exploration"
D = decimal.Decimal
decimal.getcontext().prec = 50


class PostBroken(Exception):
    pass


def cdf_decimal(loge, p, lo, hi):
    """Exact CDF of dN/dE ~ E^-p on [10^lo, 10^hi] at E = 10^loge."""
    x, lo_, hi_, p_ = D(float(loge)), D(float(lo)), D(float(hi)), D(float(p))
    mp = 1 - p_
    if mp == 0:
        return (x - lo_) / (hi_ - lo_)
    ten = D(10)
    ea = ten ** (lo_ * mp)
    eb = ten ** (hi_ * mp)
    ex = ten ** (x * mp)
    return (ex - ea) / (eb - ea)


def image_decimal(u, p, lo, hi):
    """Exact inverse-CDF image (log10 E) of the uniform number u, in 60-digit decimal."""
    import decimal

    with decimal.localcontext() as dc:
        dc.prec = 60
        u_, lo_, hi_, p_ = D(float(u)), D(float(lo)), D(float(hi)), D(float(p))
        mp = 1 - p_
        if mp == 0:
            return float(lo_ + u_ * (hi_ - lo_))
        ln10 = D(10).ln()
        t = 1 + u_ * ((mp * (hi_ - lo_) * ln10).exp() - 1)
        return float(hi_) if t <= 0 else float(lo_ + t.ln() / mp / ln10)


def run(ctx):
    import icontract
    from nuspacesim.config import NssConfig, Simulation
    from nuspacesim.simulation.spectra import spectra as S

    ncontract = {"n": 0}
    cur = {}

    def post_ok(result):
        ncontract["n"] += 1
        le, n1, n2 = result
        le = np.asarray(le)
        if cur.get("kind") == "power":
            if le.size and not (np.all(np.isfinite(le)) and np.all(le >= cur["lo"]) and np.all(le <= cur["hi"])):
                cur["fail"] = "bounds"
                return False
            if not abs(n1 * n2 - 1.0) <= 1e-12:
                cur["fail"] = "product"
                return False
        return True

    Spectra = icontract.ensure(post_ok, error=PostBroken)(S.Spectra.__call__)

    def call(cfg, N):
        return Spectra(S.Spectra(cfg), N)

    rng = ctx.subrng("c12")

    # ---------------- mono ---------------------------------------------------------
    for loge in [6.0, 8.0, 12.0, 8.300000000000001, 0.30000000000000004 + 7, float(rng.uniform(6, 12))]:
        for N in [0, 1, 2, 100_000]:
            cfg = NssConfig()
            cfg.simulation.spectrum = Simulation.MonoSpectrum(log_nu_energy=loge)
            cfg = core.validated(cfg, "C12 mono configuration")
            cur.clear()
            cur["kind"] = "mono"
            ctx.count("mono")
            try:
                le, n1, n2 = call(cfg, N)
                le = np.asarray(le)
                if le.shape != (N,) or not np.all(le == loge) or n1 * n2 != 1.0:
                    ctx.violation("mono", f"mono spectrum {loge!r}, N={N}: returned shape {le.shape}, values {np.unique(le)[:3]}, factors {n1}, {n2}", {"loge": loge, "N": N})
            except Exception as e:
                ctx.exception("mono", f"mono spectrum {loge!r} N={N} raised", e, {"loge": loge, "N": N})
            ctx.distinct.add(("mono", loge, N))

    # ---------------- power law ------------------------------------------------------
    idx_cat = [0.0, 0.5, 0.999, 1.0, 1.001, 1.5, 2.0, 2.2, 2.7, 3.0, 4.0]
    # indices a hair away from 1, both sides: the expm1 / log1p form is accurate there (worst seen 2e-15
    # decades); a form that cancels is not (seeded C12-16)
    idx_cat += [float(np.nextafter(1.0, 2.0)), float(np.nextafter(1.0, 0.0)), 1 + 1e-12, 1 - 1e-12, 1 + 1e-9, 1 - 1e-9, 1 + 1e-6, 1 - 1e-6]
    bnd_cat = [(6.0, 12.0), (6.0, 6.5), (11.5, 12.0), (7.0, 10.0), (8.3, 8.300001)]
    cases = [(p, lo, hi) for p in idx_cat for (lo, hi) in bnd_cat]
    for _ in range(ctx.pick(300, 3000)):
        lo = float(rng.uniform(6, 11.9))
        hi = float(rng.uniform(lo + 1e-6, 12.0)) if rng.random() < 0.8 else min(12.0, lo + float(10 ** rng.uniform(-6, 0)))
        if not lo < hi <= 12:
            continue
        p = float(rng.uniform(0, 4)) if rng.random() < 0.8 else float(rng.choice([1.0, 1 + 10 ** rng.uniform(-12, -1), 1 - 10 ** rng.uniform(-12, -1), 0.0, 4.0]))
        cases.append((p, lo, hi))
    hostile = rngctl.HOSTILE_UNIT
    worst = 0.0
    worst_img = 0.0
    nobs_ill = 0
    nrepr = 0
    for ci, (p, lo, hi) in enumerate(cases):
        cfg = NssConfig()
        cfg.simulation.spectrum = Simulation.PowerSpectrum(index=p, lower_bound=lo, upper_bound=hi)
        cfg = core.validated(cfg, "C12 power-law configuration")
        grid = np.sort(np.minimum(np.concatenate([hostile, rng.uniform(0, 1, 12), np.linspace(0, 1, 9)]), 1 - 2.0**-53))
        ill = 0 < abs(1 - p) < 1e-3
        for mode in ("stub", "spy"):
            cur.clear()
            cur.update(kind="power", lo=lo, hi=hi)
            wit = {"index": float(p).hex(), "lower": float(lo).hex(), "upper": float(hi).hex(), "mode": mode}
            try:
                if mode == "stub":
                    with rngctl.stub(rngctl.cycling(grid)) as sp:
                        le, n1, n2 = call(cfg, grid.size)
                    # the stub maps x -> 0 + (1+eps - 0) * x exactly as numpy would; u in [0, 1]
                    u = np.minimum(np.concatenate([np.ravel(d) for d in sp.draws()]), 1.0)
                else:
                    np.random.seed(int(rng.integers(2**31)))
                    with rngctl.spy() as sp:
                        le, n1, n2 = call(cfg, 40)
                    u = np.minimum(np.concatenate([np.ravel(d) for d in sp.draws()]), 1.0)
            except PostBroken:
                k = cur.get("fail", "post")
                ctx.count(k)
                ctx.violation(k, f"power law index={p!r} bounds=({lo!r},{hi!r}) [{mode}]: post-condition '{k}' broken", wit)
                continue
            except Exception as e:
                ctx.count("no-raise")
                ctx.exception("raises", f"power law index={p!r} bounds=({lo!r},{hi!r}) [{mode}] raised", e, wit)
                continue
            ctx.count("no-raise")
            ctx.count("bounds", le.size)
            ctx.count("product")
            le = np.asarray(le)
            if u.size != le.size:
                ctx.inconclusive_because(f"RNG observation saw {u.size} numbers for {le.size} events (draw structure changed)")
                continue
            # monotone in u
            o = np.argsort(u, kind="stable")
            ctx.count("monotone", le.size - 1)
            if np.any(np.diff(le[o]) < (-1e-13 / abs(1 - p) if ill else 0)):
                j = int(np.flatnonzero(np.diff(le[o]) < 0)[0])
                ctx.violation("monotone", f"power law index={p!r} bounds=({lo!r},{hi!r}): log_e_nu decreases from {le[o][j]!r} to {le[o][j+1]!r} as u rises from {u[o][j]!r} to {u[o][j+1]!r}", wit)
            # exact CDF
            for ui, li in zip(u, le):
                F = cdf_decimal(li, p, lo, hi)
                r = abs(float(F - D(float(ui))))
                if ill:
                    nobs_ill += 1
                ctx.count("cdf")
                if not r <= 1e-9:
                    # representability / conditioning: accept if some log-energy within `band` of
                    # the returned double is the image. Narrow bounds make one ulp of log E worth
                    # more than 1e-9 in F, and the closed form divides by 1 - index, which
                    # amplifies rounding by 1 / |1 - index| (1e-14 / |1 - index| allowed).
                    band = 1e-12 + (1e-14 / abs(1 - p) if p != 1 else 0.0)
                    Fm = float(cdf_decimal(max(lo, li - band), p, lo, hi))
                    Fp = float(cdf_decimal(min(hi, li + band), p, lo, hi))
                    if Fm - 1e-9 <= ui <= Fp + 1e-9:
                        nrepr += 1
                        r = 0.0
                # forward: the returned log-energy against the exact image of u itself (next to u = 1 a
                # steep spectrum maps one ulp of u onto a tenth of a decade, so F(E) = u alone says little)
                ctx.count("image")
                want_li = image_decimal(ui, p, lo, hi)
                tol_li = 1e-9  # flat: the inverse is well conditioned at every index, next to 1 included
                worst_img = max(worst_img, abs(li - want_li) / tol_li)
                if not abs(li - want_li) <= tol_li:
                    ctx.violation("image", f"power law index={p!r} bounds=({lo!r},{hi!r}): u={ui!r} -> log_e_nu={li!r}; the exact inverse-CDF image is {want_li!r} ({abs(li - want_li):.3e} decades away)", dict(wit, u=float(ui).hex(), loge=float(li).hex()))
                    break
                worst = max(worst, r)
                if not r <= 1e-9:
                    ctx.violation("cdf", f"power law index={p!r} bounds=({lo!r},{hi!r}): u={ui!r} -> log_e_nu={li!r} but F(E)={float(F)!r} (|F-u|={r:.3e})", dict(wit, u=float(ui).hex(), loge=float(li).hex()))
                    break
            ctx.distinct.add_rows(np.full(le.size, p), np.full(le.size, lo), np.full(le.size, hi), u)
        if ci < 3:
            ctx.sample({"index": p, "lower": lo, "upper": hi, "u": grid[:6].tolist()})
    # ---- "they leave the acceptance integral unchanged": the two factors as returned by the real
    #      Spectra call go into the real Monte Carlo integral of both channels, one after the other on
    #      the same arrays (what a full run does); the results equal those with factors (1, 1)
    from nuspacesim.simulation.geometry.region_geometry import RegionGeom, RegionGeomToO

    for spec_ in (Simulation.PowerSpectrum(index=2.0, lower_bound=8.0, upper_bound=11.5), Simulation.PowerSpectrum(index=1.0, lower_bound=7.0, upper_bound=12.0), Simulation.PowerSpectrum(index=0.0, lower_bound=6.0, upper_bound=6.5), Simulation.MonoSpectrum(log_nu_energy=9.0)):
        for mode in ("Diffuse", "Target"):
            cgi = NssConfig()
            cgi.simulation.mode = mode
            cgi.simulation.spectrum = spec_
            cgi = core.validated(cgi, "C12 integral configuration")
            np.random.seed(int(rng.integers(2**31)))
            g_ = RegionGeom(cgi) if mode == "Diffuse" else RegionGeomToO(cgi)
            g_(600 if mode == "Diffuse" else 1500)
            nk_ = len(g_.beta_rad())
            if nk_ == 0:
                continue
            _, sn_, sw_ = S.Spectra(cgi)(nk_)
            trig_, cos_, pex_ = rng.uniform(0, 20, nk_), np.cos(rng.uniform(0, 0.1, nk_)), 10 ** rng.uniform(-6, 0, nk_)
            kw_ = {} if mode == "Diffuse" else {"lenDec": np.zeros(nk_)}
            res = {}
            for tag, (a_, b_) in (("real", (sn_, sw_)), ("unit", (1.0, 1.0))):
                t1, c1, p1 = trig_.copy(), cos_.copy(), pex_.copy()
                k1 = {k_: v_.copy() for k_, v_ in kw_.items()}
                o_ = g_.mcintegral(t1, c1, p1, 10.0, a_, b_, **({} if mode == "Diffuse" else dict(k1, method="Optical")))
                r_ = g_.mcintegral(t1, float(np.cos(cgi.simulation.max_cherenkov_angle)), p1, 10.0, a_, b_, **({} if mode == "Diffuse" else dict(k1, method="Radio")))
                res[tag] = (float(o_[0]), float(o_[1]), int(o_[2]), float(r_[0]), float(r_[1]), int(r_[2]))
            ctx.count("integral-unchanged")
            ok_ = all((x == y) or abs(x - y) <= 1e-12 * abs(y) for x, y in zip(res["real"], res["unit"]))
            if not ok_:
                ctx.violation("product", f"{mode} {spec_!r}: with the factors returned by Spectra ({sn_!r}, {sw_!r}) the (optical, radio) integrals evaluated one after the other on the same arrays are {res['real']!r}; with factors (1, 1) they are {res['unit']!r}", {"mode": mode, "spectrum": repr(spec_)})
    # ---- the diagnostic plot is an observer: event i still carries the image of its own uniform number
    from .. import plotobs

    for spec_ in (Simulation.PowerSpectrum(index=2.0, lower_bound=7.0, upper_bound=11.0), Simulation.PowerSpectrum(index=1.0, lower_bound=6.0, upper_bound=12.0), Simulation.MonoSpectrum(log_nu_energy=9.25)):
        cpl = NssConfig()
        cpl.simulation.spectrum = spec_
        plotobs.check_stage(ctx, f"Spectra {spec_!r}", lambda: S.Spectra(cpl), lambda o, kw: o(700, **kw), (), "cdf", seed=int(rng.integers(2**31)))
    # ---- history: one configuration / spectrum object, edited in place and copied between calls
    cfg = NssConfig()
    cfg.simulation.spectrum = Simulation.PowerSpectrum(index=2.0, lower_bound=6.0, upper_bound=12.0)
    sp_obj = S.Spectra(cfg)
    grid = np.minimum(np.linspace(0, 1, 41), 1 - 2.0**-53)
    edits = [("index", 3.0), ("index", 1.0), ("upper_bound", 9.0), ("lower_bound", 7.5), ("index", 0.5), ("index", 2.0), ("copy", {"index": 2.7, "lower_bound": 6.5, "upper_bound": 11.0}), ("copy", {"index": 1.5})]
    for what, val in edits:
        if what == "copy":
            cfg.simulation.spectrum = cfg.simulation.spectrum.model_copy(update=val)
        else:
            setattr(cfg.simulation.spectrum, what, val)
        spc = cfg.simulation.spectrum
        cur.clear()
        cur.update(kind="power", lo=spc.lower_bound, hi=spc.upper_bound)
        ctx.count("history")
        wit = {"edit": [what, val], "index": spc.index, "lower": spc.lower_bound, "upper": spc.upper_bound}
        try:
            with rngctl.stub(rngctl.cycling(grid)) as spy_:
                le, n1, n2 = Spectra(sp_obj, grid.size)
        except PostBroken:
            ctx.violation("history", f"after editing the spectrum object ({what} -> {val}) the samples / factors no longer satisfy the bounds or the product (index {spc.index}, bounds ({spc.lower_bound}, {spc.upper_bound}))", wit)
            continue
        except Exception as e:
            ctx.exception("history", "Spectra raised after the spectrum object was edited", e, wit)
            continue
        u_ = np.minimum(np.concatenate([np.ravel(d_) for d_ in spy_.draws()]), 1.0)
        worst_h = max(abs(float(cdf_decimal(li, spc.index, spc.lower_bound, spc.upper_bound) - D(float(ui)))) for ui, li in zip(u_, le))
        p_ = spc.index
        a_, b_ = D(10) ** D(spc.lower_bound), D(10) ** D(spc.upper_bound)
        norm_ref = float(1 / (b_ / a_).ln()) if p_ == 1 else float((1 - D(p_)) / (b_ ** (1 - D(p_)) - a_ ** (1 - D(p_))))
        if not (worst_h <= 1e-9 and abs(n1 - norm_ref) <= 1e-9 * abs(norm_ref)):
            ctx.violation("history", f"after editing the spectrum object ({what} -> {val}) Spectra still samples / normalises for the earlier spectrum: max |F - u| = {worst_h:.3e}, norm {n1!r} (expected {norm_ref!r}) for index {spc.index}, bounds ({spc.lower_bound}, {spc.upper_bound})", wit)
    # ---- batch sizes (around powers of two, where block-wise processing has its seams): every event of
    #      a large batch is the image of its own uniform number
    for p_, lo_, hi_ in ((2.0, 7.0, 11.0), (1.0, 6.0, 12.0), (0.5, 8.0, 10.0)):
        for N in (8192, 8193, 65535, 65536, 65537, 131072, 150001, 262144):
            cfgN = NssConfig()
            cfgN.simulation.spectrum = Simulation.PowerSpectrum(index=p_, lower_bound=lo_, upper_bound=hi_)
            cur.clear()
            cur.update(kind="power", lo=lo_, hi=hi_)
            np.random.seed(int(rng.integers(2**31)))
            try:
                with rngctl.spy() as sp:
                    leN, _, _ = S.energy_spectra(cfgN.simulation.spectrum, N) if False else call(cfgN, N)
                uN = np.minimum(np.concatenate([np.ravel(d) for d in sp.draws()]), 1.0)
            except PostBroken:
                ctx.violation(cur.get("fail", "post"), f"power law index={p_} bounds=({lo_},{hi_}), N={N}: post-condition '{cur.get('fail', 'post')}' broken", {"N": N})
                continue
            except Exception as e:
                ctx.exception("raises", f"power law index={p_}, N={N} raised", e, {"N": N})
                continue
            leN = np.asarray(leN, dtype=np.float64)
            ctx.count("sizes", N)
            if leN.shape != (N,) or uN.size != N:
                ctx.violation("shape", f"power law N={N}: returned shape {leN.shape}, {uN.size} uniform numbers drawn", {"N": N})
                continue
            mp_ = 1.0 - p_
            ln10 = math.log(10.0)
            if mp_ == 0:
                F = (leN - lo_) / (hi_ - lo_)
            else:
                F = np.expm1(mp_ * ln10 * (leN - lo_)) / math.expm1(mp_ * ln10 * (hi_ - lo_))
            badN = np.flatnonzero(~(np.abs(F - uN) <= 1e-9))
            if badN.size:
                i = int(badN[0])
                ctx.violation("cdf", f"power law index={p_} bounds=({lo_},{hi_}), batch of N={N}: event {i} drew u={uN[i]!r} and got log_e_nu={leN[i]!r}, F(E)={F[i]!r} ({badN.size} of {N} events)", {"N": N, "index": p_, "event": i})
    # N = 0 and N = 1 for power law
    for N in (0, 1, 2):
        cfg = NssConfig()
        cfg.simulation.spectrum = Simulation.PowerSpectrum(index=2.0, lower_bound=6.0, upper_bound=12.0)
        cur.clear()
        cur.update(kind="power", lo=6.0, hi=12.0)
        ctx.count("no-raise")
        try:
            le, n1, n2 = call(cfg, N)
            if np.asarray(le).shape != (N,):
                ctx.violation("shape", f"power law N={N}: returned shape {np.asarray(le).shape}", {"N": N})
        except Exception as e:
            ctx.exception("raises", f"power law N={N} raised", e, {"N": N})
    ctx.track_worst("cdf_residual", worst, 1e-9)
    ctx.track_worst("image_error_over_tol", worst_img, 1.0)
    ctx.observe("ill_conditioned_index_cases_judged_with_widened_band", nobs_ill)
    ctx.observe("accepted_by_log_energy_band_1e-12", nrepr)
    ctx.count("contracts", ncontract["n"])
    for m in ("sizes", "integral-unchanged", "plots", "mono", "bounds", "product", "cdf", "image", "monotone", "no-raise", "contracts", "history"):
        ctx.require(m)
    return ctx.finish(
        rule="(index, lower, upper) from a boundary catalogue (index in {0,.5,.999,1,1.001,...,4} x 5 bounds) plus seeded random; per configuration 35 uniform numbers (14 hostile incl. 0, denormals, 1-2^-53, 1; grid; random) through the RNG stub and 40 from the real generator observed by the RNG spy; a case is one distinct (index, bounds, u)",
        assumptions=["python decimal (50 digits) for the exact CDF", "numpy.random.uniform(0, 1+eps) never returns a value above 1 (its largest output rounds to 1.0); values are compared as min(u, 1)", "the returned log-energy may deviate from the exact image by 1e-12 + 1e-14/|1-index| (conditioning of the closed form near index 1)"],
    )
