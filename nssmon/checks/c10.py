"""C10 — batch shower evaluation is independent of the parallel schedule.

History + executable model. Events are unambiguous (unique (beta, altitude, energy),
lat = index); the sequential model is ``[kernel.run(*e) for e in events]`` on a fresh kernel
object; every batch result is compared with it bit for bit, position by position.

  schedulers   synchronous, threads (1/2/8/16 workers), processes (2[/4] workers, spawn)
  partitions   partition size forced to {1, 2, 3, 7, 100, n, n+1} (ragged tails, singletons)
  adversarial  AdversarialExecutor: seed-chosen start order, concurrency and *release* order of
               the partition tasks (all P! start orders for P <= 4 in the thorough tier)
  yield        sys.monitoring LINE-event yield injection inside the kernel under 4 threads, with
               the shared kernel object frozen (read-only arrays, attribute writes recorded)
  faults       a failing event at every position of a 25-event batch / at first, last,
               partition-boundary and middle positions of a 250-event batch: the batch call
               must raise under every scheduler
"""
import contextlib
import io
import itertools
import math

import numpy as np

from .. import core, inject, sched

LEVEL = "exploration"
B42 = math.radians(42.0)


def make_events(rng, n):
    beta = rng.uniform(0.0, B42, n)
    alt = rng.uniform(0.0, 20.0, n)
    E = 10 ** rng.uniform(-3, 3, n)
    lat = np.arange(n, dtype=np.float64)
    lon = 0.1 * np.arange(n, dtype=np.float64)
    return beta, alt, E, lat, lon


def sequential(ev, cloudf="default", det=525.0):
    cloudf = sched.VaryingCloud() if cloudf == "default" else cloudf
    from nuspacesim.simulation.eas_optical.cphotang import CphotAng

    k = CphotAng(det)
    out = [k.run(*e, cloudf) for e in zip(*ev)]
    return np.asarray([o[0] for o in out]), np.array([o[1] for o in out])


def first_natural_failure(ev, det=525.0):
    """Index and exception of the first event whose one-at-a-time evaluation raises with the
    default (fault-free) cloud function, or None."""
    from nuspacesim.simulation.eas_optical.cphotang import CphotAng

    k, cloudf = CphotAng(det), sched.VaryingCloud()
    for i, e in enumerate(zip(*ev)):
        try:
            k.run(*e, cloudf)
        except BaseException as ex:  # StopIteration etc. included
            return i, ex
    return None


def batch(ev, cloudf="default", det=525.0, kernel=None):
    from nuspacesim.simulation.eas_optical.cphotang import CphotAng

    cloudf = sched.VaryingCloud() if cloudf == "default" else cloudf
    k = kernel or CphotAng(det)
    with contextlib.redirect_stdout(io.StringIO()):
        return k(*ev, cloudf)


def same(a, b):
    return a[0].shape == b[0].shape and a[1].shape == b[1].shape and a[0].dtype == b[0].dtype and a[0].tobytes() == b[0].tobytes() and a[1].tobytes() == b[1].tobytes()


def describe_diff(a, b):
    if a[0].shape != b[0].shape:
        return f"length {a[0].shape} instead of {b[0].shape}"
    d = np.flatnonzero((a[0] != b[0]) | (a[1] != b[1]))
    if d.size == 0:
        return f"dtype {a[0].dtype} vs {b[0].dtype}"
    i = int(d[0])
    # is it a shift / permutation of the right values?
    where = np.flatnonzero((b[0] == a[0][i]) & (b[1] == a[1][i]))
    extra = f"; that value belongs to event {int(where[0])}" if where.size and where[0] != i else ""
    return f"{d.size} of {a[0].size} positions differ, first at index {i}: {(float(a[0][i]), float(a[1][i]))!r} instead of {(float(b[0][i]), float(b[1][i]))!r}{extra}"


def shard(ctx, si, payload):
    import dask
    from nuspacesim.simulation.eas_optical.cphotang import CphotAng

    inject.require_safe()
    fam = payload["family"]
    rng = ctx.subrng("c10", fam, si)
    sizes = payload.get("sizes", [1, 2, 99, 100, 101, 250])
    nmax = max(sizes + [40, 25])
    ev_all = make_events(ctx.subrng("c10-events"), 250 if nmax <= 250 else nmax)
    # an event of the fault-free workload that raises when evaluated alone (seen only on changed
    # trees, for the NaN cloud tops) must make the batch call raise too; the remaining monitors
    # then run without NaN cloud tops
    if fam == "sync-partitions":
        # the empty batch: zero events evaluated one at a time give zero results
        for name, kw in (("synchronous", {"scheduler": "synchronous"}), ("threads-4", {"scheduler": "threads", "num_workers": 4})):
            for empty in (tuple(np.array([]) for _ in range(5)), tuple(x[:0] for x in ev_all), tuple([] for _ in range(5))):
                ctx.count("empty-batch")
                try:
                    with dask.config.set(**kw):
                        got = batch(empty)
                    shp = [np.shape(x) for x in got]
                    if not (len(got) == 2 and all(s_ == (0,) for s_ in shp)):
                        ctx.violation("empty-batch", f"{name}: the batch call on zero events returns arrays of shape {shp} (values {[np.asarray(x).ravel()[:1].tolist() for x in got]}) instead of two empty arrays", {"scheduler": name})
                except Exception as e:
                    ctx.exception("empty-batch", f"{name}: the batch call on zero events raised", e, {"scheduler": name})
    nf = first_natural_failure(ev_all) if fam in ("sync-partitions", "faults") else None
    if nf is not None:
        i, ex = nf
        ctx.obs["event_raising_when_evaluated_alone"] = {"event": i, "cloud_top": repr(sched.varying_top(i)), "exception": f"{type(ex).__name__}: {ex}"[:200]}
        for name, kw in (("synchronous", {"scheduler": "synchronous"}), ("threads-4", {"scheduler": "threads", "num_workers": 4})):
            n = min(len(ev_all[0]), i + 120)
            ctx.count("natural-fault")
            try:
                with dask.config.set(**kw):
                    got = batch(tuple(x[:n] for x in ev_all))
            except Exception:
                continue
            ctx.violation("faults", f"{name}: event {i} of {n} (cloud top {sched.varying_top(i)!r}) raises {type(ex).__name__} when evaluated alone, but the batch call returned normally with {got[0].shape[0] if got[0].ndim else 'scalar'} results", {"scheduler": name, "n": n, "position": i, "natural": True})
    try:
        seq_all = sequential(ev_all)
    except BaseException:
        sched.NAN_TOPS = False
        seq_all = sequential(ev_all)
    sub = lambda n: tuple(x[:n] for x in ev_all)
    seqn = lambda n: (seq_all[0][:n], seq_all[1][:n])

    def judge(got, n, key, what, wit):
        ctx.count(key, n)
        ctx.distinct.add((key, what))
        if not same(got, seqn(n)):
            ctx.violation(key, f"{what}: batch of {n} differs from one-at-a-time evaluation: {describe_diff(got, seqn(n))}", wit)
            return False
        return True

    if fam == "sync-partitions":
        for n in sizes:
            with dask.config.set(scheduler="synchronous"):
                judge(batch(sub(n)), n, "scheduler", f"synchronous scheduler, default partition size", {"scheduler": "synchronous", "n": n})
        for n in (7, 40, 101):
            for ps in (1, 2, 3, 7, 100, n, n + 1):
                with dask.config.set(scheduler="synchronous"), sched.forced_partition_size(ps):
                    judge(batch(sub(n)), n, "partitions", f"synchronous scheduler, partition size {ps}", {"n": n, "partition_size": ps})
                with dask.config.set(scheduler="threads", num_workers=4), sched.forced_partition_size(ps):
                    judge(batch(sub(n)), n, "partitions", f"4 threads, partition size {ps}", {"n": n, "partition_size": ps, "threads": 4})
        # frozen shared state under the synchronous scheduler
        k = CphotAng(525.0)
        with sched.frozen(k) as fz, dask.config.set(scheduler="synchronous"):
            try:
                got = batch(sub(40), kernel=k)
            except Exception as e:
                ctx.exception("frozen-state", "batch raised with the shared kernel object's arrays read-only (a constant table is mutated in place)", e, {})
                got = None
        if got is not None:
            judge(got, 40, "frozen-state", "shared kernel object frozen", {})
        ctx.obs["shared_state_attribute_writes_sync"] = len(fz.get("writes", []))
        ctx.obs["shared_state_changed_sync"] = not fz.get("digest_equal", True)
        ctx.sample({"events": [[float(x[i]) for x in ev_all] for i in range(2)], "sequential_model": [[float(seq_all[0][i]), float(seq_all[1][i])] for i in range(2)]})
    elif fam == "real-cloud":
        # the shipped pressure-map cloud model as the cloud function: events packed into three
        # adjacent latitude rows of the map at random longitudes (few rows, many columns: any
        # per-cell state kept inside the cloud function meets many events per key and many keys).
        # The one-at-a-time model runs in *reverse* order on its own cloud object.
        from nuspacesim.config import NssConfig, Simulation
        from nuspacesim.simulation.atmosphere.clouds import CloudTopHeight

        n_c = payload["n"]
        r_ = ctx.subrng("c10-real-cloud")
        row0 = float(r_.integers(-60, 60))
        ev_c = (r_.uniform(math.radians(3), math.radians(25), n_c), r_.uniform(0.0, 4.0, n_c), 10 ** r_.uniform(-1, 2, n_c), np.radians(row0 + 0.5 * r_.integers(0, 3, n_c) + 0.1), r_.uniform(-math.pi, math.pi, n_c))
        cc = NssConfig()
        cc.simulation.cloud_model = Simulation.PressureMapCloud(month=int(r_.integers(1, 13)))
        kq = CphotAng(525.0)
        cl_ref = CloudTopHeight(cc)
        ref = [None] * n_c
        for i in reversed(range(n_c)):
            ref[i] = kq.run(*(x[i] for x in ev_c), cl_ref)
        ref_c = (np.asarray([o[0] for o in ref]), np.array([o[1] for o in ref]))
        tops = np.array([float(CloudTopHeight(cc)(la, lo)) for la, lo in zip(ev_c[3][:50], ev_c[4][:50])])
        ctx.obs["real_cloud_distinct_tops_in_first_50"] = int(np.unique(tops).size)
        for name, kw in (("synchronous", {"scheduler": "synchronous"}), ("threads-4", {"scheduler": "threads", "num_workers": 4}), ("processes-2", {"scheduler": "processes", "num_workers": 2})):
            try:
                with dask.config.set(**kw):
                    got = batch(ev_c, cloudf=CloudTopHeight(cc))
            except Exception as e:
                ctx.exception("scheduler", f"{name}: batch with the pressure-map cloud model raised", e, {"scheduler": name})
                continue
            ctx.count("real-cloud", n_c)
            ctx.distinct.add(("real-cloud", name))
            if not same(got, ref_c):
                ctx.violation("scheduler", f"{name}: pressure-map cloud model, {n_c} events in three adjacent map rows: batch differs from one-at-a-time evaluation (done in reverse order on another cloud object): {describe_diff(got, ref_c)}", {"scheduler": name, "n": n_c, "cloud": "pressure-map"})
    elif fam == "threads":
        for nw in payload["workers"]:
            for n in sizes:
                with dask.config.set(scheduler="threads", num_workers=nw):
                    judge(batch(sub(n)), n, "scheduler", f"threaded scheduler, {nw} workers", {"scheduler": "threads", "workers": nw, "n": n})
    elif fam == "processes":
        # a kernel object configured after construction (public attributes changed): the copy that
        # travels to the worker processes must be the configured object, not a default one
        kc = CphotAng(525.0)
        kc.orbit_height = kc.zmax = kc.dtype(400.0)
        kc.hist_bin_size = kc.dtype(2.0)
        n_c = 101
        cl = sched.VaryingCloud()
        ref_c = [kc.run(*e, cl) for e in zip(*sub(n_c))]
        ref_c = (np.asarray([o[0] for o in ref_c]), np.array([o[1] for o in ref_c]))
        for name, kw in (("synchronous", {"scheduler": "synchronous"}), ("threads-4", {"scheduler": "threads", "num_workers": 4}), ("processes-2", {"scheduler": "processes", "num_workers": 2})):
            try:
                with dask.config.set(**kw):
                    got = batch(sub(n_c), kernel=kc)
            except Exception as e:
                ctx.exception("scheduler", f"{name}: batch raised for a kernel object configured after construction", e, {"scheduler": name})
                continue
            ctx.count("configured-kernel", n_c)
            ctx.distinct.add(("configured-kernel", name))
            if not same(got, ref_c):
                ctx.violation("scheduler", f"{name}: kernel object with orbit_height = zmax = 400 km, hist_bin_size = 2 km set after construction: batch of {n_c} differs from one-at-a-time evaluation on the same object: {describe_diff(got, ref_c)}", {"scheduler": name, "n": n_c, "configured": True})
        for nw in payload["workers"]:
            for n in sizes:
                with dask.config.set(scheduler="processes", num_workers=nw):
                    try:
                        got = batch(sub(n))
                    except Exception as e:
                        ctx.exception("scheduler", f"multi-process scheduler ({nw} workers) raised on a fault-free batch of {n}", e, {"n": n, "workers": nw})
                        continue
                judge(got, n, "scheduler", f"multi-process scheduler, {nw} workers", {"scheduler": "processes", "workers": nw, "n": n})
    elif fam == "adversarial":
        n, ps = payload["n"], payload["ps"]
        P = math.ceil(n / ps)
        seen = set()
        plans = []
        if payload.get("enumerate"):
            plans = [("enum", perm) for perm in itertools.permutations(range(P))]
        plans += [("seed", int(s)) for s in rng.integers(0, 2**31, payload["nsched"])]
        for kind, val in plans:
            ex = sched.AdversarialExecutor(seed=val if kind == "seed" else 0)
            if kind == "enum":
                order = list(val)
                ex._rng = type("R", (), {"permutation": staticmethod(lambda m, o=order, r=np.random.default_rng(hash(val) % 2**31): np.array(o) if m == len(o) else r.permutation(m)), "integers": staticmethod(lambda a, b: 1)})()
            try:
                with dask.config.set(scheduler="threads", pool=ex), sched.forced_partition_size(ps):
                    got = batch(sub(n))
            except Exception as e:
                ctx.exception("adversarial", f"batch raised under the adversarial executor ({kind} {val})", e, {"plan": str(val)})
                continue
            finally:
                ex.shutdown()
            sid = ex.schedule_id()
            seen.add(sid)
            judge(got, n, "adversarial", f"adversarial executor: start order {sid[0] if sid else None}, release order {sid[1] if sid else None}, concurrency {sid[2] if sid else None}", {"schedule": [list(sid[0]), list(sid[1]), sid[2]] if sid else None, "n": n, "partition_size": ps})
        ctx.obs["adversarial_distinct_schedules"] = ctx.obs.get("adversarial_distinct_schedules", 0) + len(seen)
        ctx.obs.setdefault("adversarial_partitions", []).append(P)
        if payload.get("enumerate"):
            ctx.exhaustive_subspaces.append(f"all {math.factorial(P)} start orders of {P} partitions (partition size {ps}, {n} events)")
    elif fam == "yield":
        n, ps = 40, 5
        det_y = float(payload.get("det", 525.0))  # a detector other than the kernel's 525 km reference orbit too
        ref_y = seqn(n) if det_y == 525.0 else sequential(sub(n), det=det_y)
        total_sw, points = 0, set()
        focus = set()
        seeds = [int(x) for x in rng.integers(0, 2**31, payload["nseeds"])]
        extra_done = False
        qi = 0
        while qi < len(seeds):
            s = seeds[qi]
            qi += 1
            k = CphotAng(det_y)
            inj = sched.YieldInjector(int(s), CphotAng, p=0.05, focus_lines=focus)
            with sched.frozen(k) as fz:
                try:
                    with inj, dask.config.set(scheduler="threads", num_workers=4), sched.forced_partition_size(ps):
                        got = batch(sub(n), kernel=k)
                except Exception as e:
                    ctx.exception("yield", "threaded batch raised under yield injection with the shared kernel frozen (read-only constant tables)", e, {"seed": int(s)})
                    continue
            total_sw += inj.switches
            points |= inj.switch_points
            ctx.count("yield", n)
            ctx.distinct.add(("yield", det_y, int(s)))
            if not same(got, ref_y):
                ctx.violation("yield", f"detector {det_y} km, 4 threads with yield injection (seed {int(s)}, {inj.switches} thread switches at {len(inj.switch_points)} source lines{', focused on lines after writes to the shared object' if focus else ''}): batch of {n} differs from one-at-a-time evaluation: {describe_diff(got, ref_y)}", {"seed": int(s), "det": det_y, "focus": sorted(focus)[:6]})
            ctx.count("frozen-state", n)
            if fz.get("writes") or not fz.get("digest_equal", True):
                # a write to the shared kernel object is an observation (a benign cache is legal);
                # it redirects the injector to the lines that follow the write and adds runs
                ctx.obs["shared_state_attribute_writes_threads"] = ctx.obs.get("shared_state_attribute_writes_threads", 0) + len(fz.get("writes", []))
                ctx.obs.setdefault("shared_state_writes_sample", [list(map(str, w)) for w in fz.get("writes", [])[:3]])
                for name_, _tid, func, line in fz.get("writes", []):
                    for d in range(0, 4):
                        focus.add((func, line + d))
                if not extra_done:
                    extra_done = True
                    seeds += [int(x) for x in rng.integers(0, 2**31, max(6, payload["nseeds"]))]
        ctx.obs["yield_thread_switches"] = ctx.obs.get("yield_thread_switches", 0) + total_sw
        ctx.obs["yield_distinct_switch_points"] = ctx.obs.get("yield_distinct_switch_points", 0) + len(points)
        if total_sw < 100:
            ctx.inconclusive_because(f"yield injection produced only {total_sw} thread switches")
    elif fam == "faults":
        schedulers = payload["schedulers"]
        cases = [(25, p) for p in payload["pos25"]] + [(250, p) for p in payload["pos250"]]
        # StopIteration is the one exception type that builtin map / list treat as "end of data":
        # it gets every position under every scheduler, the other types rotate
        plan = [(name, kw, n, pos, sched.FAULT_TYPES[(ci_ + len(name)) % len(sched.FAULT_TYPES)]) for name, kw in schedulers for ci_, (n, pos) in enumerate(cases)]
        plan += [(name, kw, n, pos, StopIteration) for name, kw in schedulers for (n, pos) in cases]
        for name, kw, n, pos, exc in plan:
            if True:
                ctx.count("faults")
                ctx.distinct.add(("fault", name, n, pos, exc.__name__))
                try:
                    with dask.config.set(**kw):
                        got = batch(sub(n), cloudf=sched.FailAt(pos, top="varying", exc=exc))
                except Exception:
                    continue  # expected: the failure surfaces as an error of the batch call
                ref = seqn(n)
                ctx.violation("faults", f"{name}: event {pos} of {n} failed with {exc.__name__} but the batch call returned normally ({got[0].shape[0] if got[0].ndim else 'scalar'} results; {describe_diff(got, ref) if got[0].ndim else ''})", {"scheduler": name, "n": n, "position": pos})
        # a fault-free run with the same cloud function must still equal the model
        with dask.config.set(scheduler="synchronous"):
            judge(batch(sub(25), cloudf=sched.FailAt(None, top="varying")), 25, "faults-control", "fault-free control with the fault-capable cloud function", {})


def run(ctx):
    T = ctx.thorough()
    sz_all = [1, 2, 99, 100, 101, 250]
    P = [
        {"family": "sync-partitions"},
        {"family": "threads", "workers": [1, 2]},
        {"family": "threads", "workers": [8, 16]},
        {"family": "processes", "workers": [2], "sizes": [2, 101, 250] if not T else sz_all},
        {"family": "real-cloud", "n": 450 if not T else 1500},
        {"family": "adversarial", "n": 40, "ps": 5, "nsched": 30 if not T else 150},
        {"family": "adversarial", "n": 250, "ps": 25, "nsched": 6 if not T else 60},
        {"family": "adversarial", "n": 12, "ps": 3, "nsched": 0, "enumerate": True},
        {"family": "yield", "nseeds": 6 if not T else 60},
        {"family": "yield", "nseeds": 6 if not T else 60, "det": 33.0},
        {"family": "faults", "schedulers": [("synchronous", {"scheduler": "synchronous"}), ("threads-4", {"scheduler": "threads", "num_workers": 4})], "pos25": list(range(25)), "pos250": [0, 99, 100, 125, 249]},
        {"family": "faults", "schedulers": [("processes-2", {"scheduler": "processes", "num_workers": 2})], "pos25": [0, 12, 24] if not T else list(range(0, 25, 3)), "pos250": [100] if not T else [0, 99, 100, 249]},
    ]
    if T:
        P += [{"family": "processes", "workers": [4], "sizes": [2, 101, 250]}, {"family": "adversarial", "n": 15, "ps": 3, "nsched": 0, "enumerate": True}, {"family": "yield", "nseeds": 60}, {"family": "yield", "nseeds": 60}]
    core.run_shards(ctx, "nssmon.checks.c10", "shard", P, workers=min(16, len(P)), timeout=ctx.pick(900, 6000))
    for m in ("empty-batch", "scheduler", "real-cloud", "configured-kernel", "partitions", "adversarial", "yield", "frozen-state", "faults", "faults-control"):
        ctx.require(m)
    return ctx.finish(
        rule="batches of {1,2,99,100,101,250} unique events, each with its own cloud top (a position-dependent cloud function), under every scheduler family; partition sizes {1,2,3,7,100,n,n+1}; adversarial start/release orders (seeded, and all P! start orders for P = 4 [5 in thorough]); yield-injected 4-thread runs with the shared kernel frozen; a failing event at every position of 25 and at {0,99,100,125,249} of 250; a case is a distinct (family, schedule / scheduler / partitioning / fault position); every one is non-trivial (it is compared with the sequential model or must raise)",
        assumptions=["dask's synchronous/threads/processes schedulers and its pool= hook", "a finite set of start/release orders and switch points is explored (all start orders only for <= 5 partitions)", "spawned dask workers re-import nssmon.__main__ and therefore also use the source-built stepping function", "CPython-level races are attacked by forced GIL hand-offs at LINE events, not by a race detector (TSan is noise on CPython)"],
    )
