"""C17 — staged output is prefix-consistent at stage boundaries and after stage failure.

Offline checker over recorded event logs; every run is a separate process
(``subprocess.run(timeout=...)``, never a pool that hangs when a child dies).

For each configuration:
  reference  a fault-free run with write_stages: the instrumented Table.write copies the file
             after every write (boundary k). Each snapshot must be a readable FITS table whose
             columns / keywords are exactly those the in-memory table had at that write, equal
             to the projection of the *final file* (file against file), and the sequence of
             column sets must be a chain of prefixes.
  raise      at every boundary k: the next write raises InjectedFault before touching the file,
             and each stage method (positions, spectrum, taus, decay, optical, optical integral,
             radio, snr, radio integral) is made to raise at entry -> compute() must raise and the
             file on disk must be snapshot k of the reference run with the same seed
  die-after / die-before   os._exit(137) right after write k returns / right before write k+1
             starts -> the file on disk must be snapshot k (no file for k = 0)
  disabled   write_stages=False (incl. runs in which no trajectory survives): an audit hook sees
             no write-mode open / rename / remove under the working directory, the output path
             does not exist afterwards and the directory is unchanged
"""
import itertools
import json
import os
import shutil
import subprocess
import sys
import tempfile

import numpy as np

from .. import core, reach

LEVEL = "fault_enumeration"
STAGE_AFTER = {  # stage method -> the columns that must already be on disk when it fails
    "positions": ["beta_rad", "theta_rad", "path_len"],
    "spectra": ["init_lat", "init_lon"],
    "taus": ["log_e_nu"],
    "altdec": ["tauExitProb"],
    "eas": ["lenDec"],
    "mcintegral-optical": ["costhetaChEff"],
    "radio": None,
    "snr": ["EFields"],
    "mcintegral-radio": ["EFields"],
}


KF_NF = "staged:non-finite-header-skipped"


_CHILD_NO = itertools.count()


def child(spec, timeout=600):
    env = dict(os.environ)
    os.makedirs(core.WORK, exist_ok=True)
    rf = os.path.join(core.WORK, f"reach.{os.getpid()}.{next(_CHILD_NO)}.jsonl")
    env["NSSMON_REACH_FILE"] = rf
    try:
        r = subprocess.run([sys.executable, "-W", "ignore", "-m", "nssmon.c17_child", json.dumps(spec)], capture_output=True, text=True, timeout=timeout, env=env, cwd=spec.get("cwd") or None)
    except subprocess.TimeoutExpired:
        return {"timeout": True}
    reach.load(rf)
    try:
        os.remove(rf)
    except OSError:
        pass
    out = {"exit": r.returncode, "stderr": r.stderr[-800:]}
    for line in r.stdout.splitlines():
        if line.startswith("C17CHILD "):
            out.update(json.loads(line[9:]))
    return out


def read_fits(path):
    """(ordered column names, {col: bytes}, {KEY: repr(value)}) or raises."""
    from astropy.io import fits
    from astropy.table import Table

    t = Table.read(path, format="fits")
    cols = {}
    for n in t.colnames:
        a = np.asarray(t[n])
        cols[n] = a.astype(a.dtype.newbyteorder("=")).tobytes() + str(a.shape).encode()
    with fits.open(path) as h:
        hdr = h[1].header
        skip = ("XTENSION", "BITPIX", "NAXIS", "PCOUNT", "GCOUNT", "TFIELDS", "TTYPE", "TFORM", "TDIM", "TUNIT", "EXTNAME", "TCOMM", "TUCD", "MJD", "JD", "TIME", "TREF", "TRPOS", "DATE", "OBSGEO", "COMMENT", "HISTORY", "TCTYP", "TCUNI", "TCRVL", "TCRPX", "TCDLT", "RADESYS", "OBJECT", "TELESCOP")
        meta = {k.upper(): repr(hdr[k]) for k in hdr.keys() if k and not k.upper().startswith(skip)}
    return list(t.colnames), cols, meta


def files_equal(a, b):
    try:
        ca, cb = read_fits(a), read_fits(b)
    except Exception as e:
        return False, f"unreadable: {type(e).__name__}: {e}"
    if ca[0] != cb[0]:
        return False, f"columns {ca[0]} vs {cb[0]}"
    for n in ca[0]:
        if ca[1][n] != cb[1][n]:
            return False, f"column {n} differs"
    if ca[2] != cb[2]:
        d = sorted(set(ca[2].items()) ^ set(cb[2].items()))[:3]
        return False, f"header differs: {d}"
    return True, ""


def reference(ctx, si, payload):
    """Fault-free staged run; snapshots and the write log are left under payload['root']."""
    cfgspec, seed, outname, root = payload["config"], payload["seed"], payload["outname"], payload["root"]
    wit0 = {"config": cfgspec, "seed": seed, "outfile": outname}
    label = json.dumps(cfgspec, sort_keys=True)
    refdir = os.path.join(root, "ref")
    snaps = os.path.join(refdir, "snaps")
    os.makedirs(snaps)
    out = os.path.join(refdir, outname)
    r = child({"config": cfgspec, "seed": seed, "outfile": out, "snapdir": snaps, "plan": {}})
    if r.get("timeout") or r.get("exit") != 0 or r.get("raised") or "writes" not in r:
        if r.get("raised"):
            ctx.violation("reference", f"{label}: the fault-free staged run raised: {r['raised']}", dict(wit0, detail=r.get("stderr")))
        else:
            ctx.inconclusive_because(f"reference run failed: {str(r)[:300]}")
        return
    writes = r["writes"]
    K = len(writes)
    with open(os.path.join(root, "writes.json"), "w") as f:
        json.dump(writes, f)
    ctx.obs.setdefault("boundaries_per_config", {})[label + " -> " + outname] = K
    if K == 0:
        ctx.violation("reference", f"{label}: write_stages=True produced no write at all", wit0)
        return
    try:
        final = read_fits(out)
    except Exception as e:
        ctx.violation("reference", f"{label}: the final output file {outname!r} is not a readable FITS table ({type(e).__name__}: {str(e)[:120]})", wit0)
        return
    prev_cols = []
    for w in writes:
        k = w["k"]
        sp = os.path.join(snaps, f"{k:03d}.fits")
        ctx.count("reference-boundaries")
        ctx.distinct.add((label, outname, "boundary", k))
        try:
            cols, cb, meta = read_fits(sp)
        except Exception as e:
            ctx.violation("reference", f"{label}: after boundary {k} of {K} the output file is not a readable FITS table ({type(e).__name__}: {str(e)[:120]})", dict(wit0, boundary=k))
            continue
        want_meta = {m.upper()[9:] if m.upper().startswith("HIERARCH ") else m.upper() for m in w["meta_keys"]}
        nonfin = {m.upper()[9:] if m.upper().startswith("HIERARCH ") else m.upper() for m in w.get("meta_nonfinite", [])}
        missing = want_meta - set(meta)
        if cols == w["colnames"] and missing and missing <= nonfin and not (set(meta) - want_meta):
            # the FITS writer skips a card whose value is NaN / inf (with a warning): open finding
            ctx.violation(KF_NF, f"{label}: file at boundary {k} lacks the keyword(s) {sorted(missing)} of a completed stage: their values are not finite and astropy writes no card for them", dict(wit0, boundary=k, keywords=sorted(missing)))
        elif cols != w["colnames"] or not want_meta <= set(meta) or (set(meta) - want_meta):
            ctx.violation("reference", f"{label}: file at boundary {k} has columns {cols} / {len(meta)} keywords; the table held columns {w['colnames']} / {len(want_meta)} keywords at that write (unexpected keywords: {sorted(set(meta) - want_meta)[:3]}, missing: {sorted(want_meta - set(meta))[:3]})", dict(wit0, boundary=k))
        if cols[: len(prev_cols)] != prev_cols:
            ctx.violation("reference", f"{label}: columns at boundary {k} ({cols}) do not extend those at boundary {k-1} ({prev_cols})", dict(wit0, boundary=k))
        prev_cols = cols
        for n in cols:
            if n not in final[1] or final[1][n] != cb[n]:
                ctx.violation("reference", f"{label}: column {n!r} as written at boundary {k} differs from the same column in the final file", dict(wit0, boundary=k, column=n))
                break
        for key, val in meta.items():
            if final[2].get(key) != val:
                ctx.violation("reference", f"{label}: keyword {key} = {val} at boundary {k} is {final[2].get(key)} in the final file", dict(wit0, boundary=k, keyword=key))
                break
    # the file left by a completed run holds everything the returned table holds
    if "final_colnames" in r:
        fm = {m.upper()[9:] if m.upper().startswith("HIERARCH ") else m.upper() for m in r["final_meta_keys"]}
        fnf = {m.upper()[9:] if m.upper().startswith("HIERARCH ") else m.upper() for m in r.get("final_meta_nonfinite", [])}
        if final[0] == r["final_colnames"] and (fm - set(final[2])) and (fm - set(final[2])) <= fnf:
            pass  # reported above, boundary by boundary, as the open finding
        elif final[0] != r["final_colnames"] or not fm <= set(final[2]):
            ctx.violation("reference", f"{label}: after the run completed the file lacks part of the returned table (columns {final[0]} vs {r['final_colnames']}; missing keywords {sorted(fm - set(final[2]))[:4]})", wit0)
    okf, why = files_equal(os.path.join(snaps, f"{K:03d}.fits"), out)
    if not okf:
        ctx.violation("reference", f"{label}: the file left by the run is not the last snapshot ({why})", wit0)
    ctx.sample({"config": cfgspec, "outfile": outname, "boundaries": K, "columns_at_each_boundary": [len(w["colnames"]) for w in writes], "keywords_at_each_boundary": [len(w["meta_keys"]) for w in writes]})


def cases(ctx, si, payload):
    """One separate process per injected fault; compared with the reference snapshots."""
    cfgspec, seed, outname, root = payload["config"], payload["seed"], payload["outname"], payload["root"]
    wit0 = {"config": cfgspec, "seed": seed, "outfile": outname}
    label = json.dumps(cfgspec, sort_keys=True)
    snaps = os.path.join(root, "ref", "snaps")
    with open(os.path.join(root, "writes.json")) as f:
        writes = json.load(f)

    def expect_snapshot(case_out, k, what, wit):
        if k == 0:
            if os.path.exists(case_out):
                ctx.violation(what, f"{label}: {wit['case']}: a file exists although no boundary was reached", wit)
            return
        if not os.path.exists(case_out):
            ctx.violation(what, f"{label}: {wit['case']}: no file on disk, expected the prefix of boundary {k}", wit)
            return
        ok, why = files_equal(case_out, os.path.join(snaps, f"{k:03d}.fits"))
        if not ok:
            ctx.violation(what, f"{label}: {wit['case']}: the file left on disk is not the prefix of boundary {k} of the fault-free run ({why})", wit)

    for ci, case in enumerate(payload["cases"]):
        cdir = os.path.join(root, f"case-{si}-{ci}")
        os.makedirs(cdir)
        cout = os.path.join(cdir, outname)
        try:
            if case[0] == "method":
                method = case[1]
                after_col = STAGE_AFTER[method]
                rr = child({"config": cfgspec, "seed": seed, "outfile": cout, "plan": {"method": method}})
                wit = dict(wit0, case=f"stage {method} raises at entry")
                ctx.count("raise-in-stage")
                ctx.distinct.add((label, outname, "method", method))
                if rr.get("timeout"):
                    ctx.inconclusive_because(f"stage fault {method} timed out")
                    continue
                if not rr.get("raised") or "InjectedFault" not in rr["raised"]:
                    ctx.violation("raise", f"{label}: a failure injected at the entry of stage '{method}' did not surface from compute() (raised: {rr.get('raised')})", wit)
                kdone = len(rr.get("writes", []))
                if after_col and kdone >= 1 and kdone <= len(writes) and not set(after_col) <= set(writes[kdone - 1]["colnames"]):
                    ctx.violation("raise", f"{label}: stage '{method}' failed after {kdone} writes, but the columns {after_col} of the previous stage were not yet written", wit)
                expect_snapshot(cout, kdone, "raise", dict(wit, boundary=kdone))
            else:
                kind, at, expect = case
                rr = child({"config": cfgspec, "seed": seed, "outfile": cout, "plan": {"kind": kind, "at": at}})
                wit = dict(wit0, case=f"{kind} at write {at}", boundary=expect)
                ctx.count(kind)
                ctx.distinct.add((label, outname, kind, at))
                if rr.get("timeout"):
                    ctx.inconclusive_because(f"case {kind}@{at} timed out")
                    continue
                if kind == "raise":
                    if not rr.get("raised") or "InjectedFault" not in rr["raised"]:
                        ctx.violation("raise", f"{label}: a failure injected before write {at} did not surface from compute() (raised: {rr.get('raised')}, exit {rr.get('exit')})", wit)
                elif rr.get("exit") != 137:
                    ctx.inconclusive_because(f"case {kind}@{at}: the child did not die as planned (exit {rr.get('exit')}, {rr.get('stderr', '')[-200:]})")
                    continue
                expect_snapshot(cout, expect, kind, wit)
        finally:
            shutil.rmtree(cdir, ignore_errors=True)


_AUDIT = {"on": False, "events": [], "installed": False}


def _hook(event, args):
    if not _AUDIT["on"]:
        return
    try:
        if event == "open":
            path, mode, flags = args[0], args[1], args[2]
            writing = (isinstance(mode, str) and any(c in mode for c in "wax+")) or (isinstance(flags, int) and flags & (os.O_WRONLY | os.O_RDWR | os.O_CREAT | os.O_APPEND | os.O_TRUNC))
            if writing and isinstance(path, (str, bytes)):
                _AUDIT["events"].append(("open", os.fsdecode(path), str(mode)))
        elif event in ("os.remove", "os.rename", "os.mkdir", "shutil.copyfile", "shutil.move", "os.rmdir"):
            _AUDIT["events"].append((event,) + tuple(os.fsdecode(a) if isinstance(a, (str, bytes)) else repr(a) for a in args[:2]))
    except Exception:
        pass


def disabled(ctx, si, payload):
    """write_stages=False: nothing may be written by the simulation itself."""
    from .. import fullrun
    from ..c17_child import build_config

    if not _AUDIT["installed"]:
        sys.addaudithook(_hook)
        _AUDIT["installed"] = True
    for spec, seed in payload["cases"]:
        d = tempfile.mkdtemp(prefix="c17off_", dir=core.WORK)
        cwd0 = os.getcwd()
        os.chdir(d)
        try:
            cfg = build_config(spec)
            for outname in ("out.fits", "results.out"):
                out = os.path.join(d, outname)
                _AUDIT["events"].clear()
                _AUDIT["on"] = True
                try:
                    sim, log = fullrun.compute(cfg, seed=seed, output_file=out, write_stages=False, with_probes=False)
                finally:
                    _AUDIT["on"] = False
                ev = [e for e in _AUDIT["events"] if any(str(x).startswith(d) or (not str(x).startswith("/") and x not in ("w", "r")) for x in e[1:2])]
                ctx.count("disabled")
                ctx.distinct.add(("disabled", json.dumps(spec, sort_keys=True), outname))
                rows = len(sim) if sim is not None else None
                wit = {"config": spec, "seed": seed, "rows": rows, "outfile": outname}
                if log.exception is not None:
                    ctx.exception("raises", f"compute(write_stages=False) raised for {spec}", log.exception, wit)
                    continue
                if rows == 0:
                    ctx.obs["disabled_runs_with_no_survivor"] = ctx.obs.get("disabled_runs_with_no_survivor", 0) + 1
                if os.path.exists(out) or os.listdir(d) or ev:
                    ctx.violation("disabled", f"write_stages=False, {spec} ({rows} rows): the simulation wrote to disk (output exists: {os.path.exists(out)}, directory: {os.listdir(d)}, write events: {ev[:3]})", wit)
            # ---- a stage that fails while writing is disabled: still nothing on disk (seeded C17-17: a
            #      "flush what we have" on the failure path that does not look at write_stages)
            from ..c17_child import InjectedFault, method_fault

            def inner_fault(which):
                # a failure *inside* a stage (below the result-store decorator of the stage's entry point)
                from nuspacesim.simulation.eas_optical.cphotang import CphotAng
                from nuspacesim.simulation.eas_radio.radio import RadioEFieldParams
                from nuspacesim.simulation.taus.taus import Taus

                obj, attr = {"inside-taus": (Taus, "tau_exit_prob"), "inside-eas": (CphotAng, "__call__"), "inside-radio": (RadioEFieldParams, "__call__")}[which]
                orig = obj.__dict__[attr]

                def boom(*a, **k):
                    raise InjectedFault(f"injected failure {which}")

                setattr(obj, attr, boom)
                return lambda: setattr(obj, attr, orig)

            for meth in ("taus", "eas", "snr", "mcintegral-radio", "inside-taus", "inside-eas", "inside-radio"):
                out = os.path.join(d, "fail.fits")
                undo = inner_fault(meth) if meth.startswith("inside-") else method_fault({"method": meth})
                _AUDIT["events"].clear()
                _AUDIT["on"] = True
                try:
                    sim, log = fullrun.compute(cfg, seed=seed, output_file=out, write_stages=False, with_probes=False)
                finally:
                    _AUDIT["on"] = False
                    undo()
                ev = [e for e in _AUDIT["events"] if any(str(x).startswith(d) or (not str(x).startswith("/") and x not in ("w", "r")) for x in e[1:2])]
                if sim is not None and log.exception is None:
                    continue  # the stage is not part of this run (e.g. no surviving trajectory)
                ctx.count("disabled-failing")
                wit = {"config": spec, "seed": seed, "stage": meth}
                if not isinstance(log.exception, InjectedFault):
                    ctx.exception("raises", f"write_stages=False, failure injected in stage {meth}: compute() raised something else", log.exception, wit)
                elif os.path.exists(out) or os.listdir(d) or ev:
                    ctx.violation("disabled", f"write_stages=False, {spec}, stage {meth} fails: the simulation wrote to disk (output exists: {os.path.exists(out)}, directory: {os.listdir(d)}, write events: {ev[:3]})", wit)
        finally:
            os.chdir(cwd0)
            shutil.rmtree(d, ignore_errors=True)
    # ---- staged runs named by a *relative* path from two working directories in one process: each run's
    #      stages and final table land in its own directory (seeded C17-16: resolved path memoised on the name)
    cfgr = build_config({"mode": "Diffuse", "n": 40})
    dirs = [tempfile.mkdtemp(prefix=f"c17rel{i}_", dir=core.WORK) for i in range(3)]
    cwd0 = os.getcwd()
    try:
        first = None
        for i, dd in enumerate(dirs):
            os.chdir(dd)
            sim, log = fullrun.compute(cfgr, seed=70 + i, output_file="stages.fits", write_stages=True, with_probes=False)
            ctx.count("relative-path")
            wit = {"run": i, "outfile": "stages.fits"}
            if log.exception is not None:
                ctx.exception("raises", "staged run with a relative output name raised", log.exception, wit)
                break
            here = os.path.join(dd, "stages.fits")
            if not os.path.exists(here):
                ctx.violation("relative-path", f"staged run #{i + 1} in a new working directory with the relative output name 'stages.fits': no file in that directory (directory holds {os.listdir(dd)})", wit)
                break
            try:
                cols, _, _ = read_fits(here)
                if len(sim) and list(cols) != list(sim.colnames):
                    ctx.violation("relative-path", f"staged run #{i + 1}: the file in its directory does not hold the run's columns", wit)
            except Exception as e:
                ctx.exception("relative-path", f"staged run #{i + 1}: file in its directory unreadable", e, wit)
            b0 = open(os.path.join(dirs[0], "stages.fits"), "rb").read()
            if first is None:
                first = b0
            elif b0 != first:
                ctx.violation("relative-path", f"staged run #{i + 1} (another working directory, same relative name) overwrote the first run's file", wit)
                break
    finally:
        os.chdir(cwd0)
        for dd in dirs:
            shutil.rmtree(dd, ignore_errors=True)


def entry(ctx, si, payload):
    if payload["kind"] == "ref":
        reference(ctx, si, payload)
    elif payload["kind"] == "cases":
        cases(ctx, si, payload)
    else:
        disabled(ctx, si, payload)


def run(ctx):
    T = ctx.thorough()
    configs = [
        ({"mode": "Diffuse", "n": 40}, "out.fits"),
        ({"mode": "Target", "n": 1200}, "run_0042"),
    ]
    # a geometry in which most kept events emerge below the tau tables' 0.1 deg floor (their
    # low-angle branch): reference run only — the defect class it targets (an already written
    # column changing later) shows in the fault-free run
    ref_only = [({"mode": "Diffuse", "n": 60, "limb_deg": 1e-4, "cone_deg": 0.05}, "lowbeta.fits"),
                # staged writing when no trajectory survives: the geometry stage still completes
                ({"mode": "Target", "n": 300, "never_occulted": True}, "empty.fits"), ({"mode": "Diffuse", "n": 0}, "empty0.fits"),
                # staged writing together with every diagnostic plot (`run -w --plotall`): the plots are observers
                ({"mode": "Diffuse", "n": 40, "plots": True}, "plots.fits"), ({"mode": "Target", "n": 1200, "plots": True}, "plots_t.fits"),
                # exactly one surviving trajectory (NaN uncertainty keywords) and a non-finite configuration value (default mono cloud)
                ({"mode": "Diffuse", "n": 1, "seed": 1}, "one.fits"), ({"mode": "Diffuse", "n": 20, "cloud": "mono_default"}, "inf.fits")]
    if T:
        configs += [
            ({"mode": "Diffuse", "n": 40, "radio": False}, "results.out"),
            ({"mode": "Diffuse", "n": 40, "optical": False}, "out.fits"),
            ({"mode": "Diffuse", "n": 50, "spectrum": "power", "cloud": "map", "alt": 33.0}, "a.fit"),
            ({"mode": "Target", "n": 1500, "spectrum": "power", "cloud": "mono"}, "out.fits"),
            ({"mode": "Diffuse", "n": 2000}, "big.fits"),
        ]
    os.makedirs(core.WORK, exist_ok=True)
    top = tempfile.mkdtemp(prefix="c17_", dir=core.WORK)
    try:
        refs = []
        for i, (c, o) in enumerate(configs):
            root = os.path.join(top, f"cfg{i}")
            os.makedirs(root)
            refs.append({"kind": "ref", "config": c, "seed": int(ctx.seed * 1000 + 17 + i), "outname": o, "root": root})
        extra = []
        for i, (c, o) in enumerate(ref_only):
            root = os.path.join(top, f"refonly{i}")
            os.makedirs(root)
            extra.append({"kind": "ref", "config": {k_: v_ for k_, v_ in c.items() if k_ != "seed"}, "seed": int(c.get("seed", ctx.seed * 1000 + 170 + i)), "outname": o, "root": root})
        P1 = refs + extra + [{"kind": "disabled", "cases": [({"mode": "Diffuse", "n": 40}, 3), ({"mode": "Diffuse", "n": 0}, 4), ({"mode": "Target", "n": 400, "never_occulted": True}, 5), ({"mode": "Target", "n": 900}, 6), ({"mode": "Diffuse", "n": 1, "alt": 33.0}, 9)]}]
        core.run_shards(ctx, "nssmon.checks.c17", "entry", P1, workers=min(16, len(P1)), timeout=ctx.pick(900, 3000))
        allcases = []
        for r in refs:
            wj = os.path.join(r["root"], "writes.json")
            if not os.path.exists(wj):
                continue
            K = len(json.load(open(wj)))
            cs = []
            for k in range(0, K + 1):
                if k < K:
                    cs.append(("raise", k + 1, k))
                    cs.append(("die-before", k + 1, k))
                if k >= 1:
                    cs.append(("die-after", k, k))
            for method in STAGE_AFTER:
                if method in ("eas", "mcintegral-optical") and not r["config"].get("optical", True):
                    continue
                if method in ("radio", "snr", "mcintegral-radio") and not r["config"].get("radio", True):
                    continue
                cs.append(("method", method))
            for c in cs:
                allcases.append((r, c))
        nsh = 16
        P2 = []
        for j in range(nsh):
            mine = allcases[j::nsh]
            by = {}
            for r, c in mine:
                by.setdefault(r["root"], (r, []))[1].append(c)
            for r, cl in by.values():
                P2.append({"kind": "cases", "config": r["config"], "seed": r["seed"], "outname": r["outname"], "root": r["root"], "cases": cl})
        # group per worker: run_shards distributes payloads over 16 processes
        if P2:
            core.run_shards(ctx, "nssmon.checks.c17", "entry", P2, workers=16, timeout=ctx.pick(1500, 7000))
    finally:
        shutil.rmtree(top, ignore_errors=True)
    for m in ("reference-boundaries", "raise", "die-after", "die-before", "raise-in-stage", "disabled", "disabled-failing", "relative-path"):
        ctx.require(m)
    if ctx.obs.get("disabled_runs_with_no_survivor", 0) < 1:
        ctx.inconclusive_because("no write_stages=False run without surviving trajectories was observed")
    ctx.exhaustive_subspaces.append("every stage boundary of each configuration x {raise, die-after, die-before}; every stage method raising at entry")
    return ctx.finish(
        rule="per configuration (quick: default diffuse -> out.fits, target -> extension-less file name; thorough adds radio-off, optical-off, power-law + pressure map at 33 km, target + power-law + uniform cloud, a 2000-event run, other file names): one fault-free reference run recording every boundary, then one separate process per (boundary, kind) for kind in {raise, die-after, die-before} and per stage method raising at entry; plus write_stages=False runs incl. zero-survivor runs under an audit hook; a case is a distinct (configuration, boundary, kind)",
        assumptions=["death *during* a write is outside the property ('between stages') and is not injected", "snapshots are compared file against file after reading both with astropy (so header-float text cutting cannot masquerade as a staging defect)", "FITS structural keywords (TFORMn, EXTNAME, time-reference keywords) are excluded from the keyword comparison", "synchronous dask scheduler inside the children"],
        exhaustive=True,
    )
