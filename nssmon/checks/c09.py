"""C09 — clouds remove exactly the light emitted below the cloud top at the event site.

Kernel clauses (real ``CphotAng.run`` with a harness cloud function; segment altitudes are
taken from a probe on ``valid_arrays`` of the same kernel, not assumed):
  below-first    cloud top below the first segment: bit-identical to the cloud-free result
  above-penult   cloud top above the penultimate segment: exactly (0, 0)
  between        otherwise: equals the reference model with everything emitted below the cloud
                 top removed (double-precision hook 1e-9; production float32 in C06's band)
  site           the cloud function is asked exactly once, with the event's own (lat, long)
Cloud models (real ``CloudTopHeight``):
  uniform        no-cloud / uniform-cloud: one value everywhere (uniform: the configured one)
  map            pressure map: the value is the standard-atmosphere altitude (independent
                 per-layer reference) of the map pressure at a node within one grid step of the
                 location given in radians; it varies with longitude at fixed latitude
"""
import math
import os

import numpy as np

from .. import core, inject
from ..oracles import atm_ref
from ..oracles import cphot_ref as CR
from ..oracles import geom_ref as G
from ..oracles import tables_ref

LEVEL = "exploration"
B42 = math.radians(42.0)


def kernels(det_alt):
    from .c06 import kernels as k

    return k(det_alt)


def kernel_part(ctx, rng, nev):
    from astropy.io import fits
    from nuspacesim.config import NssConfig, Simulation
    from nuspacesim.simulation.atmosphere.clouds import CloudTopHeight
    from nuspacesim.simulation.eas_optical.cphotang import CphotAng
    from nuspacesim.simulation.geometry.region_geometry import RegionGeom

    inject.require_safe()
    seg = {}
    o_valid = CphotAng.__dict__["valid_arrays"]

    def p_valid(self, *a, **k):
        r = o_valid(self, *a, **k)
        seg["zs"] = np.array(r[0], copy=True)
        return r

    CphotAng.valid_arrays = p_valid
    try:
        k32, k64 = kernels(525.0)
        if k64.dtype != np.float64:
            ctx.inconclusive_because("float64 hook not active")
        for ev in range(nev):
            b = float(rng.uniform(0, B42)) if ev > 1 else [0.0, B42][ev]
            a = float(rng.uniform(0, 20)) if ev > 1 else [0.0, 20.0][ev]
            e = float(10 ** rng.uniform(-3, 3.5))
            lat, lon = float(rng.uniform(-1.5, 1.5)), float(rng.uniform(-3.1, 3.1))
            for kern, name in ((k64, "double"), (k32, "float32")):
                asked = []

                def cf_factory(top):
                    def cf(la, lo):
                        asked.append((float(la), float(lo)))
                        return top

                    return cf

                try:
                    free = tuple(float(x) for x in kern.run(b, a, e, lat, lon, None))
                    zs = seg["zs"].astype(np.float64)
                except Exception as ex:
                    ctx.exception("raises", f"CphotAng.run raised on an in-domain event ({name})", ex, {"beta": b, "alt": a, "E": e})
                    continue
                if zs.size < 6:
                    continue
                wit = {"kernel": name, "beta": float(b).hex(), "alt": float(a).hex(), "E": float(e).hex(), "readable": [b, a, e], "segments": int(zs.size), "first": float(zs[0]), "penultimate": float(zs[-2]), "last": float(zs[-1])}
                mid = lambda i: 0.5 * (zs[i] + zs[i + 1])
                below = [-math.inf, -1.0, zs[0] - 1e-3, float(np.nextafter(np.float32(zs[0]), np.float32(-np.inf))) if name == "float32" else float(np.nextafter(zs[0], -np.inf))]
                above = [float(np.nextafter(np.float32(zs[-2]), np.float32(np.inf))) if name == "float32" else float(np.nextafter(zs[-2], np.inf)), mid(-2), float(zs[-1]), zs[-1] + 1.0, 1e6, math.inf]
                ties = [float(zs[0]), float(zs[-2])]
                inter = [mid(i) for i in range(0, 4)] + [mid(i) for i in range(zs.size - 6, zs.size - 2)] + [float(zs[i]) for i in (1, 2, zs.size - 4, zs.size - 3)] + [float(rng.uniform(zs[0], zs[-2])) for _ in range(ctx.pick(3, 8))]
                for top in below:
                    asked.clear()
                    r = tuple(float(x) for x in kern.run(b, a, e, lat, lon, cf_factory(top)))
                    ctx.count("below-first")
                    if r != free:
                        ctx.violation("below-first", f"[{name}] cloud top {top!r} km below the first segment ({zs[0]!r} km) changes the result from {free!r} to {r!r}", dict(wit, top=repr(top)))
                    ctx.count("site")
                    if asked != [(lat, lon)]:
                        ctx.violation("site", f"[{name}] the cloud function was asked {asked!r} for an event at ({lat!r}, {lon!r})", wit)
                for top in above:
                    r = tuple(float(x) for x in kern.run(b, a, e, lat, lon, cf_factory(top)))
                    ctx.count("above-penult")
                    if r != (0.0, 0.0):
                        ctx.violation("above-penult", f"[{name}] cloud top {top!r} km above the penultimate segment ({zs[-2]!r} km; last {zs[-1]!r}) gives {r!r} instead of exactly (0, 0)", dict(wit, top=repr(top)))
                for top in ties:  # a tie may fall either way; it must be one of the two neighbours
                    r = tuple(float(x) for x in kern.run(b, a, e, lat, lon, cf_factory(top)))
                    ctx.count("ties-observed")
                for top in inter:
                    try:
                        dr, cr = CR.run(b, a, e, 525.0, top)
                    except Exception as ex:
                        ctx.inconclusive_because(f"reference failed: {ex!r}")
                        continue
                    r = tuple(float(x) for x in kern.run(b, a, e, lat, lon, cf_factory(top)))
                    on_node = bool(np.any(np.abs(zs - top) <= 4e-7 * max(1.0, abs(top))))
                    if on_node:
                        # exactly on a segment altitude: either side of the tie is accepted
                        lo, hi = CR.run(b, a, e, 525.0, top - 1e-5), CR.run(b, a, e, 525.0, top + 1e-5)
                        cands = [lo, hi]
                    else:
                        cands = [(dr, cr)]
                    ctx.count("between")
                    if name == "double":
                        ok = any((abs(r[0] - d) <= 1e-9 * abs(d) + 1e-300) and (abs(r[1] - c) <= 1e-10 * abs(c) + 1e-300) for d, c in cands)
                    else:
                        # float32: the angle is only judged where the surviving light is above the
                        # property's own density floor (0.1 m^-2); below it the float32 weights
                        # underflow and the angle of a shower that delivers no light is immaterial
                        # (also: faint residual light, < 1e-3 of the cloud-free density, underflows to 0
                        #  in float32 — e.g. 0 instead of 0.32 m^-2 of 3011 — which is accepted)
                        ok = any((abs(r[0] - d) <= max(0.1 * d, 0.1, 1e-3 * free[0])) and (d < max(0.1, 1e-3 * free[0]) or abs(r[1] - c) <= 0.01 * c + 1e-12) for d, c in cands)
                    if name == "float32":
                        # piecewise constancy (precision-free): the result may change only when the
                        # cloud top crosses a segment altitude
                        if not on_node:
                            k = int(np.searchsorted(zs, top))
                            lo_, hi_ = zs[k - 1], zs[min(k, zs.size - 1)]
                            other = lo_ + (hi_ - lo_) * float(rng.uniform(0.2, 0.8))
                            if lo_ < other < hi_ and abs(other - top) > 0:
                                r2 = tuple(float(x) for x in kern.run(b, a, e, lat, lon, cf_factory(float(other))))
                                ctx.count("between-piecewise")
                                if r2 != r:
                                    ctx.violation("between", f"[float32] cloud tops {top!r} and {other!r} km lie between the same two segments ({lo_!r}, {hi_!r}) but give {r!r} and {r2!r}", dict(wit, top=float(top), other=float(other)))
                        if top > 25.0 and not ok:
                            # float32 accuracy of a shower seen only above 25 km (n - 1 ~ 1e-6) is not a
                            # cloud-logic question: observed, not judged (DESIGN observation O2)
                            ctx.obs["f32_dev_above_25km_observed"] = ctx.obs.get("f32_dev_above_25km_observed", 0) + 1
                            ctx.track_worst("f32_density_rel_dev_cloud_above_25km_observed_only", abs(r[0] - cands[0][0]) / cands[0][0] if cands[0][0] else 0.0, float("inf"))
                            ok = True
                    if not ok:
                        ctx.violation("between", f"[{name}] cloud top {top!r} km between segments ({zs[0]!r} .. {zs[-2]!r}): kernel gives {r!r}, the model with the light below the cloud removed gives {cands[0]!r} (cloud-free {free!r})", dict(wit, top=float(top)))
                ctx.distinct.add_rows(np.array([b]), np.array([a]), np.array([e]), np.array([0.0 if name == "double" else 1.0]))
                if len(ctx.samples) < 2:
                    ctx.sample({"event": [b, a, e], "kernel": name, "segments": int(zs.size), "first_km": float(zs[0]), "penultimate_km": float(zs[-2]), "cloud_tops_tried": len(below) + len(above) + len(inter) + len(ties)})
    finally:
        CphotAng.valid_arrays = o_valid



def models_part(ctx, rng, months, uniform):
    from astropy.io import fits
    from nuspacesim.config import NssConfig, Simulation
    from nuspacesim.simulation.atmosphere.clouds import CloudTopHeight
    from nuspacesim.simulation.eas_optical.cphotang import CphotAng
    from nuspacesim.simulation.geometry.region_geometry import RegionGeom

    # ---------------- cloud models ---------------------------------------------------------------
    nloc = ctx.pick(3000, 40000)
    lats = rng.uniform(-math.pi / 2, math.pi / 2, nloc)
    lons = rng.uniform(-math.pi, math.pi, nloc)
    lats[:6] = [math.pi / 2, -math.pi / 2, 0.0, 0.0, 1.0, -1.0]
    lons[:6] = [0.0, 0.0, math.pi, np.nextafter(-math.pi, 0), math.pi, -3.0]
    # locations produced by the real geometry stage
    cfg = NssConfig()
    cfg.detector.initial_position.latitude, cfg.detector.initial_position.longitude = 0.7, 2.9
    g = RegionGeom(cfg)
    np.random.seed(int(rng.integers(2**31)))
    bt, _, _ = g(400)
    glat, glon = g.find_lat_long_along_traj(np.zeros_like(bt))
    lats = np.concatenate([lats, np.asarray(glat)])
    lons = np.concatenate([lons, np.asarray(glon)])
    # target mode hands the detector's configured longitude to the cloud model unchanged, and a
    # configured longitude may follow the 0..360 deg convention (or be negative beyond -180 deg):
    # the same meridians, hence the same map cells
    nx = ctx.pick(400, 4000)
    lats = np.concatenate([lats, rng.uniform(-math.pi / 2, math.pi / 2, nx)])
    xl = np.where(rng.random(nx) < 0.7, rng.uniform(math.pi, 2 * math.pi, nx), rng.uniform(-2 * math.pi, -math.pi, nx))
    xl[:6] = [math.radians(200.0), math.radians(359.99), 2 * math.pi, math.radians(-200.0), float(np.nextafter(math.pi, 4)), math.radians(181.0)]
    lons = np.concatenate([lons, xl])
    for model, want in () if not uniform else ((Simulation.NoCloud(), None), (Simulation.MonoCloud(altitude=3.7), 3.7), (Simulation.MonoCloud(altitude=-math.inf), -math.inf), (Simulation.MonoCloud(altitude=12.0), 12.0)):
        c = NssConfig()
        c.simulation.cloud_model = model
        f = CloudTopHeight(c)
        vals = np.array([float(f(la, lo)) for la, lo in zip(lats[:500], lons[:500])])
        ctx.count("uniform", vals.size)
        if not np.all(vals == vals[0]) or (want is not None and not (vals[0] == want or (math.isfinite(want) and abs(vals[0] - want) <= 1e-6 * abs(want)))):
            ctx.violation("uniform", f"cloud model {model!r} returns {np.unique(vals)[:4].tolist()} (expected one value{'' if want is None else ' = ' + repr(want)})", {"model": repr(model)})
    # ---- the model *object* is what compute() hands to the optical stage as its cloud function: the
    #      kernel with the object equals the kernel with a plain function returning the same top
    if uniform:
        kq = CphotAng(525.0)
        evs = [(0.2, 2.0, 5.0), (0.05, 0.5, 50.0), (0.5, 6.0, 1.0)]
        for model in (Simulation.NoCloud(), Simulation.MonoCloud(altitude=-math.inf), Simulation.MonoCloud(altitude=0.0), Simulation.MonoCloud(altitude=3.0), Simulation.MonoCloud(altitude=70.0), Simulation.MonoCloud(altitude=1e4), Simulation.MonoCloud(altitude=math.inf)):
            c = NssConfig()
            c.simulation.cloud_model = model
            fobj = CloudTopHeight(c)
            for (b_, a_, e_) in evs:
                top = float(fobj(0.1, 0.2))
                with_obj = tuple(float(x) for x in kq.run(b_, a_, e_, 0.1, 0.2, fobj))
                with_fn = tuple(float(x) for x in kq.run(b_, a_, e_, 0.1, 0.2, lambda la, lo, t=top: t))
                ctx.count("model-object")
                if with_obj != with_fn:
                    ctx.violation("above-penult" if top == math.inf else "between", f"cloud model {model!r} (top {top!r} km) handed to the kernel as an object gives {with_obj!r}; a plain function returning the same top gives {with_fn!r} (event beta={b_}, alt={a_}, E={e_})", {"model": repr(model), "event": [b_, a_, e_]})
    ddir = os.path.join(tables_ref.data_dir(), "cloud_maps")
    lat_nodes = np.linspace(-90, 90, 361)
    lonA = np.linspace(-180, 180, 576)  # the convention the code's axis uses
    lonB = -180 + 0.625 * np.arange(576)  # MERRA-2's native grid
    for mth in months:
        c = NssConfig()
        c.simulation.cloud_model = Simulation.PressureMapCloud(month=mth)
        try:
            f = CloudTopHeight(c)
        except Exception as ex:
            ctx.exception("raises", f"pressure map model month {mth} raised", ex, {"month": mth})
            continue
        with fits.open(os.path.join(ddir, f"nss_map_CloudTopPressure_{mth:02d}.v0.fits")) as h:
            P = np.array(h[0].data, dtype=np.float64)
        sel = np.arange(lats.size)
        bad_n, first = 0, None
        vals = np.empty(sel.size)
        for q, idx in enumerate(sel):
            la, lo = float(lats[idx]), float(lons[idx])
            try:
                v = float(f(la, lo))
            except Exception as ex:
                ctx.exception("map:raises", f"pressure map month {mth}: lookup at ({la!r}, {lo!r}) rad raised", ex, {"month": mth, "lat": la, "lon": lo})
                bad_n += 1
                vals[q] = np.nan
                continue
            vals[q] = v
            lad, lod = math.degrees(la), math.degrees(lo)
            ii = np.flatnonzero(np.abs(lat_nodes - lad) <= 0.5 + 1e-9)
            dl = np.minimum(np.abs(((lonA - lod) + 180) % 360 - 180), np.abs(((lonB - lod) + 180) % 360 - 180))
            jj = np.flatnonzero(dl <= 0.63)
            ok = False
            for i in ii:
                for j in jj:
                    w = atm_ref.altitude(float(P[i, j]))
                    if abs(v - w) <= 1e-9 * max(1.0, abs(w)):
                        ok = True
                        break
                if ok:
                    break
            ctx.count("map")
            if not ok:
                bad_n += 1
                if first is None:
                    first = (la, lo, v, [round(atm_ref.altitude(float(P[i, j])), 6) for i in ii for j in jj][:6])
        if first is not None:
            ctx.violation("map", f"pressure map month {mth}: at (lat {first[0]!r}, lon {first[1]!r}) rad the cloud top is {first[2]!r} km, which is not the standard-atmosphere altitude of any map node within one grid step (those give {first[3]}) ({bad_n} of {sel.size} locations)", {"month": mth, "lat": first[0], "lon": first[1]})
        # ---- object history: a second cloud model for the same month in the same process, and the first
        #      one again afterwards, give the same cloud tops (module-level caches of the map must not be
        #      changed by building or using another object)
        try:
            f2 = CloudTopHeight(c)
            idx_h = sel[:: max(1, sel.size // 300)][:300]
            v2 = np.array([float(f2(float(lats[i]), float(lons[i]))) for i in idx_h])
            v1 = np.array([float(f(float(lats[i]), float(lons[i]))) for i in idx_h])
            f3 = CloudTopHeight(c)
            v3 = np.array([float(f3(float(lats[i]), float(lons[i]))) for i in idx_h])
            ref_h = vals[: sel.size][:: max(1, sel.size // 300)][:300]
            ctx.count("map-history", 3 * idx_h.size)
            for nm_, vv in (("a second object for the same month", v2), ("the first object after a second one was built and used", v1), ("a third object", v3)):
                same_ = (vv == ref_h) | (np.isnan(vv) & np.isnan(ref_h))
                if not np.all(same_):
                    i = int(np.flatnonzero(~same_)[0])
                    ctx.violation("map", f"pressure map month {mth}: {nm_} returns {vv[i]!r} km at (lat {float(lats[idx_h[i]])!r}, lon {float(lons[idx_h[i]])!r}) rad; the first object returned {ref_h[i]!r} km ({int((~same_).sum())} of {idx_h.size} locations)", {"month": mth, "object": nm_})
                    break
        except Exception as ex:
            ctx.exception("map:raises", f"pressure map month {mth}: building / using a second cloud model raised", ex, {"month": mth})
        # longitude sensitivity at fixed latitude
        la0 = 0.3
        row = np.array([float(f(la0, lo)) for lo in np.linspace(-3.1, 3.1, 64)])
        ctx.count("map-longitude")
        if np.unique(row).size < 8:
            ctx.violation("map", f"pressure map month {mth}: at latitude {la0} rad the cloud top takes only {np.unique(row).size} distinct values over 64 longitudes", {"month": mth})
        ctx.distinct.add_rows(np.full(sel.size, mth), lats[sel], lons[sel])


def fullrun_part(ctx, rng):
    """Monitored compute() with a pressure-map cloud: the cloud model must be asked for exactly
    the in-range events' own stored ground coordinates, in order, and its answers must be the
    ones the kernel used (a cloud top above the shower gives zero PEs)."""
    from nuspacesim.config import NssConfig, Simulation
    from nuspacesim.simulation.atmosphere.clouds import CloudTopHeight

    from .. import fullrun

    inject.require_safe()
    for mode, n, dlon in (("Diffuse", 150, 2.4), ("Target", 2500, 2.4), ("Target", 2500, math.radians(200.0)), ("Diffuse", 150, math.radians(-190.0))):
        cfg = NssConfig()
        cfg.simulation.mode = mode
        cfg.simulation.thrown_events = n
        cfg.simulation.cloud_model = Simulation.PressureMapCloud(month=int(rng.integers(1, 13)))
        # (a detector longitude in the 0..360 deg convention / below -180 deg is a valid position)
        cfg.detector.initial_position.latitude, cfg.detector.initial_position.longitude = 0.6, dlon
        cfg.detector.radio.enable = False
        cfg.simulation.spectrum.log_nu_energy = 12.0  # long decay lengths: more decays above 20 km
        cfg = core.validated(cfg, "C09 full-run configuration")
        asked = []
        o_call = CloudTopHeight.__dict__["__call__"]

        def p_call(self, *a, **k):
            r = o_call(self, *a, **k)
            asked.append((float(a[0]), float(a[1]), float(r)))
            return r

        CloudTopHeight.__call__ = p_call
        try:
            sim, log = fullrun.compute(cfg, seed=int(rng.integers(2**31)))
        finally:
            CloudTopHeight.__call__ = o_call
        wit = {"mode": mode, "month": cfg.simulation.cloud_model.month, "detector_longitude_rad": dlon}
        if log.exception is not None:
            ctx.exception("raises", f"compute() with a pressure-map cloud raised ({mode})", log.exception, wit)
            continue
        if len(sim) == 0:
            continue
        alt = np.asarray(sim["altDec"], dtype=np.float64)
        inr = (alt >= 0) & (alt <= 20)
        la, lo = np.asarray(sim["init_lat"], dtype=np.float64)[inr], np.asarray(sim["init_lon"], dtype=np.float64)[inr]
        ctx.count("site-fullrun", int(inr.sum()))
        ctx.obs["fullrun_out_of_range_decays"] = ctx.obs.get("fullrun_out_of_range_decays", 0) + int((~inr).sum())
        got = np.array([(a, b) for a, b, _ in asked]).reshape(-1, 2)
        # dask may evaluate the partitions in any order: compare the (lat, long) pairs as a multiset
        srt = lambda a: a[np.lexsort((a[:, 1], a[:, 0]))] if a.size else a
        if got.shape[0] != la.size or not np.array_equal(srt(got), srt(np.c_[la, lo])):
            ctx.violation("site", f"full {mode} run: the cloud model was asked for {got.shape[0]} locations; the {la.size} in-range events' stored (init_lat, init_lon) are {'different pairs' if got.shape[0] == la.size else 'a different number'} (first asked {got[0].tolist() if got.size else None}, first stored {[float(la[0]), float(lo[0])] if la.size else None})", wit)
        ctx.distinct.add_rows(np.full(la.size, float(cfg.simulation.cloud_model.month)), la, lo)


def shard(ctx, si, payload):
    rng = ctx.subrng("c09", si)
    if payload["kind"] == "fullrun":
        fullrun_part(ctx, rng)
    elif payload["kind"] == "kernel":
        kernel_part(ctx, rng, payload["nev"])
    else:
        models_part(ctx, rng, payload["months"], payload["uniform"])


def run(ctx):
    from .. import core

    nsh = 10
    nev = ctx.pick(60, 480)
    payloads = [{"kind": "kernel", "nev": max(1, nev // nsh)} for _ in range(nsh)]
    payloads += [{"kind": "models", "months": [m], "uniform": m == 1} for m in range(1, 13)]
    payloads += [{"kind": "fullrun"}]
    core.run_shards(ctx, "nssmon.checks.c09", "shard", payloads, workers=16, timeout=ctx.pick(1200, 6000))
    ctx.exhaustive_subspaces.append("all 12 monthly cloud maps")
    for m in ("below-first", "above-penult", "between", "between-piecewise", "site", "site-fullrun", "uniform", "map", "map-history", "map-longitude", "model-object"):
        ctx.require(m)
    return ctx.finish(
        rule="kernel: events over [0,42 deg] x [0,20 km] x [1e-3, 3e3] x 100 PeV, each with cloud tops {-inf, -1, first segment - 1e-3, one ulp below it; one ulp above the penultimate segment, between the last two, the last, +1 km, 1e6, +inf; midpoints of the first four and last four kept segment pairs, four exact segment altitudes, random in between}, for the production float32 kernel and the same kernel in double; maps: 12 months x random locations on the sphere (radians, lon in (-pi, pi]) incl. both poles and the +-180 deg seam plus 400 locations produced by the real geometry stage",
        assumptions=["segment altitudes are those the kernel itself reports (valid_arrays probe)", "a cloud top exactly on a segment altitude may fall either way (the property does not say)", "map oracle accepts any node within one grid step (0.5 deg, 0.63 deg) under either longitude-axis convention; altitude from the independent per-layer atmosphere", "uniform model: the configured altitude to float32 accuracy", "float32 kernel, intermediate cloud tops: density within max(10 %, 0.1 m^-2, 1e-3 of the cloud-free density); angle judged only where the surviving density is above that floor (float32 underflow of faint light); the same kernel in double is compared at 1e-9 everywhere", "float32 kernel with cloud tops above 25 km: absolute accuracy observed only (10-25 % deviations occur because n-1 ~ 1e-6 is not resolved in float32); decided there by the double-precision run, the exact zero / bit-identity clauses and piecewise constancy between segment altitudes"],
    )
