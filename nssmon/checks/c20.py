"""C20 — the radio detection chain scales correctly and respects its validity range.

Two-run relations on the real ``EASRadio.__call__`` + ``calculate_snr`` (global generator
seeded identically, so the per-position random factors are the same in both runs):
  energy     scaling every shower energy by k scales every SNR by k   (1e-12 of the summed
             bin magnitudes + 1e-9 of the value: terms of either sign cancel)
  antennas   SNR(n antennas) == sqrt(n) SNR(1 antenna)                      (1e-12)
  order      with the constant RNG stub, permuting the events permutes fields and SNR
  finite     every field and SNR is finite for events from the real upstream stages with
             hostile decay numbers (lenDec in {0, 1e-17, ...}, decay at closest approach to the
             detector, altDec in {0, 10, 10 + ulp})
  range      a decay outside [0, 10] km altitude gives an exactly zero field
  bands      ALL 13 695 bands 10a <= lo < hi <= 1650 MHz (enumerated): the field bins the real
             parametrisation returns are those at the centre frequencies arange(lo, hi, 10) + 5
             that voltage and noise use (values compared with an independent evaluation of the
             parametrisation at exactly those centres), and the SNR is computable and finite
  absolute   SNR equals an independent re-derivation from the formulas (radio_ref, 1e-12)
"""
import math
import os

import numpy as np

from .. import core, rngctl

LEVEL = "exploration"
B42 = math.radians(42.0)


def ref_efield(ps_row, freqs, view_deg):
    """Independent evaluation of the ZHAireS parametrisation for one shower at given centres."""
    out = []
    for f in freqs:
        k = int(np.flatnonzero(ps_row[:, 0] == f)[0])
        _, E0, peak, w, E1, w2 = ps_row[k]
        va = peak + view_deg
        out.append(E0 * math.exp(-((va - peak) ** 2) / (2.0 * w * w)) + abs(E1) * math.exp(-(va**2) / (2.0 * w2 * w2)) / 2.0)
    return np.array(out)


def ref_snr(E, lo, hi, h_obs, nants, gain):
    """SNR re-derived from the formulas: sum of antenna voltages over sqrt(summed noise power)."""
    freqs = [lo + 10.0 * i + 5.0 for i in range(int(round((hi - lo) / 10.0)))]
    c, Z0, ZL, ZA, kb = 299792.458, 376.730, 50.0, 50.0, 1.38064852e-23
    Re = 6371.0
    theta = math.atan(Re / (Re + h_obs))
    sky = 1.0 - (2 * math.pi * (1 - math.cos(theta))) / (4 * math.pi)
    vs, vn2 = 0.0, 0.0
    bw = 1e7
    for j, f in enumerate(freqs):
        v = 2 * E[j] * (1e3 * c / (1e6 * f)) * math.sqrt((ZA / Z0) * gain / (4 * math.pi))
        vs += (ZL / (ZA + ZL)) * v
        tau = 5 * f**-2.1
        Pg = 2.48e-20 * f**-0.52 * ((1 - math.exp(-tau)) / tau)
        Peg = 1.06e-20 * f**-0.8 * math.exp(-tau)
        Tsky = ((Pg + Peg) / kb) * ((1e3 * 299792.458) ** 2 / (2 * (f * 1e6) ** 2))
        Tc = 100.0 + (287.0 * (1.0 - sky) + Tsky * sky)
        vn2 += Tc * bw * kb * ZL
    return nants * vs / math.sqrt(nants * vn2)


_PS = {}


def shipped_table():
    """The shipped waveform parameter table, read from the file by the harness itself (not taken from
    the object under test, whose copy a change may have cut, cast or rescaled)."""
    if "ps" not in _PS:
        import astropy.io.misc.hdf5 as hf

        from ..oracles import tables_ref

        f = hf.read_table_hdf5(os.path.join(tables_ref.data_dir(), "radio_params", "waveform_params.hdf5"))
        _PS.update(ps=np.array(f["params"], dtype=np.float64), zen=np.array(f["zenith"], dtype=np.float64), h=np.array(f["height"], dtype=np.float64))
    return _PS["ps"], _PS["zen"], _PS["h"]


def param_field_nonzero(beta, alt, band=(30.0, 300.0)):
    """Does the tabulated parametrisation have any non-zero on-axis field for the nearest
    (zenith, height) entry? (some table entries are identically zero)"""
    shipped_table()
    zen = np.degrees(np.pi / 2 - beta)
    j = np.argmin(np.abs(zen[:, None] - _PS["zen"][None, :]) + np.abs(alt[:, None] - _PS["h"][None, :]), axis=1)
    p = _PS["ps"][j]
    inb = (p[:, :, 0] >= band[0]) & (p[:, :, 0] <= band[1])
    return np.any(((p[:, :, 1] != 0) | (p[:, :, 4] != 0)) & inb, axis=1)


def upstream(rng, n, alt_det, hostile=True):
    """Events from the real geometry / tau / decay stages, with hostile decay numbers."""
    from nuspacesim.config import NssConfig
    from nuspacesim.simulation.eas_optical.eas import EAS
    from nuspacesim.simulation.geometry.region_geometry import RegionGeom
    from nuspacesim.simulation.taus.taus import Taus

    cfg = NssConfig()
    cfg.detector.initial_position.altitude = alt_det
    aH = math.asin(6378.1 / (6378.1 + alt_det))
    if math.radians(7) >= aH:
        cfg.simulation.angle_from_limb = 0.5 * aH
    cfg = core.validated(cfg, "C20 upstream configuration")
    g = RegionGeom(cfg)
    np.random.seed(int(rng.integers(2**31)))
    beta, theta, L = g(int(n * 1.3) + 20)
    beta, theta, L = beta[:n], theta[:n], L[:n]
    m = beta.size
    le = rng.uniform(7, 11.5, m)
    tb, tl, te, se, _ = Taus(cfg)(beta, le)
    u = rng.uniform(0, 1, m)
    if hostile and m > 12:
        u[:8] = [1.0, 1 - 2.0**-53, 1 - 1e-12, 1 - 1e-9, 0.999999, 5e-324, 1e-300, 1e-17]
    alt, l = EAS(cfg).altDec(beta, tb, tl, u)
    alt, l = np.array(alt), np.array(l)
    if hostile and m > 12:
        # decay exactly at the point of closest approach to the detector (decay view angle 90 deg)
        l[8:11] = (L * np.cos(theta))[8:11]
        alt[8:11] = np.sqrt(6378.1**2 + l[8:11] ** 2 + 2 * 6378.1 * l[8:11] * np.sin(beta[8:11])) - 6378.1
        alt[11] = 10.0
        alt[12] = float(np.nextafter(10.0, 11))
        alt[13] = 0.0
        if m > 24:
            # out-of-range decays whose geometry is degenerate (distance to the detector 0, infinite or
            # undefined): they are outside [0, 10] km like any other and must give an exactly zero field
            beta = np.array(beta, copy=True)
            # decays at exactly the detector's own altitude. For a detector above 10 km they are out of range
            # (exact zero). For a detector inside the decay range they are in range, and the code's distance
            # along the track between two equal altitudes is 0 although the decay is metres to a kilometre
            # away from the detector: the distance scale is inf and the field inf / NaN for about one such
            # event in four (open known finding radio:decay-at-detector-altitude; bit-exact equality only)
            at_det = alt_det
            alt[15] = at_det  # decays at the detector's own altitude
            alt[16] = np.inf
            alt[17], beta[17] = -1.0, math.radians(0.5)  # below ground on a grazing track
            alt[18] = 1e300
            alt[19], l[19] = at_det, float((L * np.cos(theta))[19])
            alt[20] = -np.inf
            # out-of-range decays whose *view angle* is undefined: an infinite decay length and altitude
            # (a decay random number of exactly 0 gives inf - inf) and a decay at the detector seen along
            # the axis (0 / 0), far above the range
            alt[21], l[21] = np.inf, np.inf
            alt[22], l[22] = 40.0, float(L[22])
            if m > 40:
                # decays a hair below the ground (the altitude is a difference of two lengths of order R and
                # can round below zero): outside [0, 10] km like any other negative altitude (seeded C20-17)
                alt[23:27] = [-5e-324, -1e-12, float(np.nextafter(0.0, -1.0)) * 2**40, -9e-11]
        # viewed exactly along the shower axis: the parametrised field is certainly non-zero there
        theta = np.array(theta, copy=True)
        theta[[0, 11, 12, 13]] = 0.0
        if m > 40:
            theta[23:27] = 0.0
    if m > 24:
        theta[22] = 0.0
        theta[14 :: max(1, m // 40)] = 0.0
    return cfg, beta, alt, l, theta, L, np.asarray(se)


def chain(cfg, args, seed=None, stub=None):
    from nuspacesim.simulation.eas_radio.radio import EASRadio
    from nuspacesim.simulation.eas_radio.radio_antenna import calculate_snr

    import contextlib
    import io

    cm = rngctl.stub(rngctl.constant(stub)) if stub is not None else contextlib.nullcontext()
    if seed is not None:
        np.random.seed(seed)
    with cm, contextlib.redirect_stdout(io.StringIO()):
        E = EASRadio(cfg)(*args)
    r = cfg.detector.radio
    snr = calculate_snr(E, (r.low_frequency, r.high_frequency), cfg.detector.initial_position.altitude, r.nantennas, r.gain)
    return np.asarray(E), np.asarray(snr)


def fixed_witness_decay_at_detector_altitude(ctx):
    """The recorded witness of the open finding radio:decay-at-detector-altitude, evaluated on every run."""
    from nuspacesim.config import NssConfig

    cfg = NssConfig()
    cfg.detector.initial_position.altitude = 5.0
    args = tuple(np.array([x]) for x in (0.39141849140797885, 5.0, 13.076161419760194, 0.008711678450932677, 13.357083716450731, 1.0))
    try:
        with np.errstate(all="ignore"):
            E, snr = chain(cfg, args, seed=1)
    except Exception as e:
        ctx.exception("raises", "radio chain raised on the recorded witness (decay at the detector's altitude)", e, {})
        return
    ctx.count("finite", 1)
    if not (np.all(np.isfinite(E)) and np.all(np.isfinite(snr))):
        ctx.violation("radio:decay-at-detector-altitude", f"detector 5.0 km: the decay at altitude 5.0 km (beta=0.39141849140797885, lenDec=13.076161419760194, view=0.008711678450932677, path=13.357083716450731), 280 m from the detector, has a non-finite field / SNR = {snr[0]!r}", {"det_alt": 5.0, "altDec": 5.0})


def relations(ctx, si, payload):
    rng = ctx.subrng("c20-rel", si)
    if si == payload.get("witness_shard", -1):
        fixed_witness_decay_at_detector_altitude(ctx)
        dtype_monitor(ctx)
    for det in payload["dets"]:
        for tec, band in payload["variants"]:
            n = payload["n"]
            cfg, beta, alt, l, theta, L, se = upstream(rng, n, det)
            cfg.detector.radio.low_frequency, cfg.detector.radio.high_frequency = band
            if tec is None:
                cfg.simulation.ionosphere = None  # the radio stage explicitly allows a missing ionosphere block
            else:
                cfg.simulation.ionosphere.total_electron_content = tec
                if tec == 150.0:
                    cfg.simulation.ionosphere.total_electron_error = 25.0  # above the tabulated error range
            args = (beta, alt, l, theta, L, se)
            wit = {"det_alt": det, "TEC": tec, "band": list(band), "events": int(beta.size)}
            a0 = [x.copy() for x in args]
            seed = int(rng.integers(2**31))
            try:
                E, snr = chain(cfg, args, seed=seed)
            except Exception as e:
                ctx.exception("raises", f"radio chain raised for detector {det} km, band {band}", e, wit)
                continue
            for x, x0 in zip(args, a0):
                if x.tobytes() != x0.tobytes():
                    ctx.violation("inputs-modified", "EASRadio.__call__ modified an input array", wit)
            inr = (alt >= 0) & (alt <= 10)
            # ---- finite
            ctx.count("finite", beta.size)
            bad = ~np.isfinite(snr) | ~np.all(np.isfinite(E), axis=1)
            if bad.any():
                i = int(np.flatnonzero(bad)[0])
                key = "radio:lenDec==0" if l[i] == 0 else ("radio:decay-at-detector-altitude" if (alt[i] == det and np.all(alt[bad] == det)) else "finite")
                ctx.violation(key, f"detector {det} km: event {i} (beta={beta[i]!r}, altDec={alt[i]!r}, lenDec={l[i]!r}, view={theta[i]!r}, path={L[i]!r}) has a non-finite field / SNR = {snr[i]!r} ({int(bad.sum())} events)", dict(wit, event=i, lenDec=float(l[i]), altDec=float(alt[i])))
            # ---- range
            ctx.count("range", int((~inr).sum()))
            nz = (~inr) & (np.any(E != 0, axis=1) | (snr != 0))
            if nz.any():
                i = int(np.flatnonzero(nz)[0])
                ctx.violation("range", f"decay at altitude {alt[i]!r} km (outside [0, 10]) has a non-zero field / SNR ({snr[i]!r})", dict(wit, event=i))
            # inside the range (0 and 10 km included) the event is evaluated: a positive-energy shower
            # viewed along its axis has a non-zero field (off axis the parametrisation may underflow to 0)
            ctx.count("range-inside", int((inr & (theta == 0)).sum()))
            dead = inr & (se > 0) & (theta == 0) & ~np.any(E != 0, axis=1) & np.isfinite(snr)
            if dead.any():
                dead &= param_field_nonzero(beta, np.where(np.isfinite(alt), alt, 0.0), band)
            if dead.any():
                i = int(np.flatnonzero(dead)[0])
                ctx.violation("range", f"decay at altitude {alt[i]!r} km (inside [0, 10]) with shower energy {se[i]!r} has an exactly zero field", dict(wit, event=i))
            ctx.obs["events_outside_range_seen"] = ctx.obs.get("events_outside_range_seen", 0) + int((~inr).sum())
            ctx.obs["events_inside_range_seen"] = ctx.obs.get("events_inside_range_seen", 0) + int(inr.sum())
            good = inr & np.isfinite(snr)
            # the SNR is a sum over frequency bins whose terms can have either sign (Askaryan phase):
            # rounding is relative to the sum of the terms' magnitudes, not to the cancelled total
            from nuspacesim.simulation.eas_radio.radio_antenna import calculate_snr as _snr

            r_ = cfg.detector.radio
            scale = np.asarray(_snr(np.abs(E), (r_.low_frequency, r_.high_frequency), cfg.detector.initial_position.altitude, 1, r_.gain))
            # ---- energy scaling
            for k in (0.1, 2.0, 1e3):
                E2, snr2 = chain(cfg, (beta, alt, l, theta, L, se * k), seed=seed)
                ctx.count("energy", int(good.sum()))
                d = np.abs(snr2[good] - k * snr[good])
                tol_ = 1e-12 * k * math.sqrt(cfg.detector.radio.nantennas) * scale[good] + 1e-9 * np.abs(k * snr[good]) + 1e-300  # the geomagnetic and Askaryan terms can cancel inside a bin as well
                if not np.all(d <= tol_):
                    i = int(np.flatnonzero(good)[int(np.flatnonzero(~(d <= tol_))[0])])
                    ctx.violation("energy", f"detector {det} km: scaling the shower energy by {k} changes the SNR of event {i} from {snr[i]!r} to {snr2[i]!r} (expected {k * snr[i]!r})", dict(wit, k=k, event=i))
                    break
            # ---- antennas
            base_n = cfg.detector.radio.nantennas
            cfg.detector.radio.nantennas = 1
            _, s1 = chain(cfg, args, seed=seed)
            for nn in (2, 10, 1000):
                cfg.detector.radio.nantennas = nn
                _, sn = chain(cfg, args, seed=seed)
                ctx.count("antennas", int(good.sum()))
                d = np.abs(sn[good] - math.sqrt(nn) * s1[good])
                tol_ = 1e-12 * math.sqrt(nn) * scale[good] + 1e-9 * np.abs(math.sqrt(nn) * s1[good]) + 1e-300
                if not np.all(d <= tol_):
                    i = int(np.flatnonzero(good)[int(np.flatnonzero(~(d <= tol_))[0])])
                    ctx.violation("antennas", f"SNR with {nn} antennas is {sn[i]!r}, sqrt({nn}) x the single-antenna SNR {s1[i]!r} = {math.sqrt(nn) * s1[i]!r}", dict(wit, antennas=nn))
                    break
            cfg.detector.radio.nantennas = base_n
            # ---- order (constant stub)
            E0, s0 = chain(cfg, args, stub=0.3)
            perm = rng.permutation(beta.size)
            Ep, sp = chain(cfg, tuple(x[perm] for x in args), stub=0.3)
            ctx.count("order", beta.size)
            if not (Ep.tobytes() == E0[perm].tobytes() and sp.tobytes() == s0[perm].tobytes()):
                ctx.violation("order", f"detector {det} km: permuting the events does not permute the fields / SNRs", wit)
            # ---- absolute SNR against the re-derived formulas
            sel = np.flatnonzero(good)[:25]
            for i in sel:
                want = ref_snr(E[i], band[0], band[1], det, cfg.detector.radio.nantennas, cfg.detector.radio.gain)
                ctx.count("absolute")
                if not abs(snr[i] - want) <= 1e-11 * abs(want) + 1e-300:
                    ctx.violation("absolute", f"SNR of event {i} is {snr[i]!r}; voltages and noise re-derived from the formulas give {want!r}", dict(wit, event=int(i)))
                    break
            ctx.distinct.add_rows(np.full(beta.size, det), beta, alt, l, se)
            if len(ctx.samples) < 2:
                i = int(np.flatnonzero(good)[0]) if good.any() else 0
                ctx.sample({"det_alt": det, "band": list(band), "TEC": tec, "event": {"beta": float(beta[i]), "altDec": float(alt[i]), "lenDec": float(l[i]), "showerEnergy": float(se[i])}, "snr": float(snr[i])})


def bands(ctx, si, payload):
    """All bands assigned to this shard: field bins == voltage/noise bins; SNR computable."""
    from nuspacesim.simulation.eas_radio.radio import RadioEFieldParams
    from nuspacesim.simulation.eas_radio.radio_antenna import calculate_snr

    ps, zen, hts = shipped_table()
    rng = ctx.subrng("c20-bands", si)
    for lo, hi in payload["bands"]:
        z, v, h = float(rng.choice(zen)), float(rng.uniform(-2, 2)), float(rng.choice(hts))
        ctx.count("bands")
        wit = {"band": [lo, hi]}
        try:
            o = RadioEFieldParams((float(lo), float(hi)))
            E = np.asarray(o(np.array([z]), np.array([v]), np.array([h])))
        except Exception as e:
            ctx.exception("bands", f"band {lo}-{hi} MHz: the field parametrisation raised", e, wit)
            continue
        centres = np.arange(float(lo), float(hi), 10.0) + 5.0
        j = int(np.argmin(np.abs(zen - z) + np.abs(hts - h)))
        want = ref_efield(ps[j], centres, v)
        if E.shape != (1, centres.size) or not np.allclose(E[0], want, rtol=1e-12, atol=0):
            ctx.violation("bands", f"band {lo}-{hi} MHz: the field has {E.shape[-1] if E.ndim else 0} bins; voltage and noise use {centres.size} bins centred at {centres[:2].tolist()}..{centres[-1]} (values {'differ' if E.shape == (1, centres.size) else 'n/a'})", wit)
            continue
        ctx.count("bands-snr")
        try:
            s = calculate_snr(E, (float(lo), float(hi)), 525.0, 10, 1.8)
            if not (np.shape(s) == (1,) and np.all(np.isfinite(s))):
                ctx.violation("bands-snr", f"band {lo}-{hi} MHz: SNR is {s!r}", wit)
            else:
                w = ref_snr(E[0], float(lo), float(hi), 525.0, 10, 1.8)
                if not abs(float(s[0]) - w) <= 1e-11 * abs(w):
                    ctx.violation("absolute", f"band {lo}-{hi} MHz: SNR {float(s[0])!r}, re-derived {w!r}", wit)
        except Exception as e:
            ctx.exception("bands-snr", f"band {lo}-{hi} MHz ({centres.size} bin{'s' if centres.size != 1 else ''}): calculate_snr raised", e, dict(wit, bins=int(centres.size)))
    ctx.distinct.add_rows(np.array([b[0] for b in payload["bands"]], float), np.array([b[1] for b in payload["bands"]], float))


def dtype_monitor(ctx):
    """The same (exactly representable) event values as half / single precision and integer arrays give
    the SNR the float64 arrays give."""
    from nuspacesim.config import NssConfig

    cfg = NssConfig()
    n = 24
    k = np.arange(n)
    base = [np.radians(2.0 + k).astype(np.float16).astype(np.float64), (0.5 + 0.25 * k).astype(np.float64) % 8.0, (4.0 + k).astype(np.float64), np.full(n, 2.0**-6), (900.0 + 64.0 * k).astype(np.float64), np.full(n, 2.0)]
    try:
        with np.errstate(all="ignore"):
            _, want = chain(cfg, tuple(x.copy() for x in base), stub=0.4)
    except Exception as e:
        ctx.exception("raises", "radio chain raised on a plain float64 batch", e, {})
        return
    for nm, idx, dt in (("float16 path lengths", (4,), np.float16), ("all six columns float16", (0, 1, 2, 3, 4, 5), np.float16), ("all six columns float32", (0, 1, 2, 3, 4, 5), np.float32), ("integer shower energies", (5,), np.int64), ("integer decay lengths", (2,), np.int32)):
        args = [x.copy() for x in base]
        for i in idx:
            args[i] = args[i].astype(dt)
        ctx.count("dtype")
        try:
            with np.errstate(all="ignore"):
                _, got = chain(cfg, tuple(args), stub=0.4)
            if not (got.shape == want.shape and np.all(np.abs(got - want) <= 1e-9 * np.abs(want))):
                i = int(np.argmax(np.abs(np.nan_to_num(got, nan=np.inf) - want) / np.maximum(np.abs(want), 1e-300))) if got.shape == want.shape else 0
                ctx.violation("dtype", f"radio chain with {nm}: event {i} has SNR {got[i] if got.shape == want.shape else got!r}; the same numbers as float64 give {want[i]!r}", {"case": nm})
        except Exception as e:
            ctx.exception("dtype", f"radio chain with {nm} raised", e, {"case": nm})


def history(ctx, si, payload):
    """One EASRadio object reused across calls while its configuration's band / batch size change."""
    from nuspacesim.simulation.eas_radio.radio import EASRadio

    import contextlib
    import io

    rng = ctx.subrng("c20-hist", si)
    cfg, beta, alt, l, theta, L, se = upstream(rng, 400, 525.0)
    obj = EASRadio(cfg)
    steps = [((30.0, 300.0), 400), ((300.0, 1000.0), 400), ((30.0, 300.0), 400), ((50.0, 200.0), 150), ((30.0, 300.0), 400), ((330.0, 600.0), 400), ((30.0, 300.0), 17)]
    for k, (band, n) in enumerate(steps):
        cfg.detector.radio.low_frequency, cfg.detector.radio.high_frequency = band
        args = tuple(x[:n] for x in (beta, alt, l, theta, L, se))
        with rngctl.stub(rngctl.constant(0.4)), contextlib.redirect_stdout(io.StringIO()):
            got = np.asarray(obj(*args))
            ref = np.asarray(EASRadio(cfg)(*args))
        ctx.count("history", n)
        ctx.distinct.add(("history", k, band, n))
        if got.shape != ref.shape or got.tobytes() != ref.tobytes():
            ctx.violation("history", f"call #{k + 1} on one EASRadio object (band {band}, {n} events, after calls with other bands / sizes) differs from a fresh object: shape {got.shape} vs {ref.shape}", {"step": k, "band": list(band), "n": n})
            break


def big(ctx, si, payload):
    """One batch larger than any internal block size: order, range and finiteness."""
    rng = ctx.subrng("c20-big", si)
    cfg, beta, alt, l, theta, L, se = upstream(rng, payload["n"], 525.0)
    args = (beta, alt, l, theta, L, se)
    wit = {"det_alt": 525.0, "events": int(beta.size)}
    try:
        E0, s0 = chain(cfg, args, stub=0.3)
        perm = rng.permutation(beta.size)
        Ep, sp = chain(cfg, tuple(x[perm] for x in args), stub=0.3)
    except Exception as e:
        ctx.exception("raises", f"radio chain raised on a batch of {beta.size}", e, wit)
        return
    ctx.count("order", beta.size)
    ctx.count("order-big-batch", beta.size)
    if not (Ep.tobytes() == E0[perm].tobytes() and sp.tobytes() == s0[perm].tobytes()):
        d = np.flatnonzero(sp != s0[perm])
        ctx.violation("order", f"batch of {beta.size}: permuting the events does not permute the SNRs ({d.size} events differ, e.g. original position {int(perm[d[0]]) if d.size else None})", wit)
    inr = (alt >= 0) & (alt <= 10)
    dead = inr & (se > 0) & (theta == 0) & ~np.any(E0 != 0, axis=1)
    if dead.any():
        dead &= param_field_nonzero(beta, np.where(np.isfinite(alt), alt, 0.0))
    ctx.count("range-inside", int((inr & (theta == 0)).sum()))
    if dead.any():
        i = int(np.flatnonzero(dead)[0])
        ctx.violation("range", f"batch of {beta.size}: event {i} at altitude {alt[i]!r} km (inside [0, 10]) has an exactly zero field", dict(wit, event=i))
    ctx.count("finite", beta.size)
    if not np.all(np.isfinite(s0)):
        ctx.violation("finite", f"batch of {beta.size}: {int((~np.isfinite(s0)).sum())} non-finite SNRs", wit)
    ctx.distinct.add_rows(np.full(beta.size, 525.5), beta, alt, l, se)


def fullbands(ctx, si, payload):
    """The band a full run hands from the configuration to the field stage and to the antenna /
    noise stage: compute() must call calculate_snr with the configured band, altitude, antenna number
    and gain, the stored field has the configured band's bins, and the SNR recomputed from the stored
    field with the configured band reproduces what the run used for its trigger."""
    from nuspacesim.config import NssConfig

    from .. import fullrun

    for lo, hi in payload["bands"]:
        cfg = NssConfig()
        cfg.detector.optical.enable = False
        cfg.simulation.thrown_events = 250
        cfg.simulation.spectrum.log_nu_energy = 10.0
        cfg.detector.radio.low_frequency, cfg.detector.radio.high_frequency = float(lo), float(hi)
        cfg.detector.radio.nantennas = 7
        cfg = core.validated(cfg, f"C20 full run, band {lo}-{hi} MHz")
        wit = {"band": [lo, hi]}
        sim, log = fullrun.compute(cfg, seed=payload["seed"], freeze=False)
        if log.exception is not None or sim is None:
            ctx.exception("raises", f"compute() raised for the radio band {lo}-{hi} MHz", log.exception, wit)
            continue
        ctx.count("fullrun-bands")
        ctx.distinct.add(("fullrun-band", lo, hi))
        if len(sim) == 0 or not log.snr:
            continue
        r = cfg.detector.radio
        a = log.snr[0]["args"]
        nb = int(round((hi - lo) / 10.0))
        E = np.asarray(sim["EFields"], dtype=np.float64)
        probs = []
        if not (len(a) >= 5 and tuple(float(x) for x in a[1]) == (float(lo), float(hi)) and float(a[2]) == cfg.detector.initial_position.altitude and int(a[3]) == r.nantennas and float(a[4]) == r.gain):
            probs.append(f"calculate_snr was called with band {tuple(a[1]) if len(a) > 1 else None}, altitude {a[2] if len(a) > 2 else None}, antennas {a[3] if len(a) > 3 else None}, gain {a[4] if len(a) > 4 else None} (configured: ({lo}, {hi}), {cfg.detector.initial_position.altitude}, {r.nantennas}, {r.gain})")
        if E.ndim != 2 or E.shape[1] != nb:
            probs.append(f"the stored field has {E.shape[1] if E.ndim == 2 else 'no'} bins, the configured band has {nb}")
        else:
            got = np.asarray(log.snr[0]["result"], dtype=np.float64)
            want = np.array([ref_snr(E[i], float(lo), float(hi), cfg.detector.initial_position.altitude, r.nantennas, r.gain) for i in range(min(len(E), 60))])
            sc = np.array([sum(abs(x) for x in E[i]) for i in range(want.size)])
            if got.shape[0] != len(E) or not np.all(np.abs(got[: want.size] - want) <= 1e-9 * np.abs(want) + 1e-12 * np.abs(want).max() + 1e-300):
                i = int(np.argmax(np.abs(got[: want.size] - want))) if got.shape[0] == len(E) else 0
                probs.append(f"the SNR the run used for event {i} is {got[i] if got.size > i else None!r}; the stored field with the configured band's bin centres gives {want[i]!r}")
        if probs:
            ctx.violation("bands", f"full radio-only run, band {lo}-{hi} MHz: " + "; ".join(probs), wit)


def entry(ctx, si, payload):
    if payload["kind"] == "fullbands":
        fullbands(ctx, si, payload)
    elif payload["kind"] == "history":
        history(ctx, si, payload)
    elif payload["kind"] == "big":
        big(ctx, si, payload)
    elif payload["kind"] == "rel":
        relations(ctx, si, payload)
    else:
        bands(ctx, si, payload)


def run(ctx):
    T = ctx.thorough()
    allb = [(lo, hi) for lo in range(0, 1650, 10) for hi in range(lo + 10, 1651, 10)]
    nb = 12
    P = [{"kind": "bands", "bands": allb[i::nb]} for i in range(nb)]
    dets = [33.0, 89.0, 91.0, 525.0, 36000.0, 5.0, 8.0]  # incl. detectors inside the [0, 10] km decay range (closest approach can be in range)
    variants = [(10.0, (30.0, 300.0)), (7.0, (30.0, 300.0)), (50.0, (300.0, 1000.0)), (10.0, (50.0, 200.0)), (-1.0, (30.0, 300.0)), (None, (30.0, 80.0)), (150.0, (200.0, 1200.0))]
    for d in dets:
        P.append({"kind": "rel", "witness_shard": len(P) if d == 5.0 else -1, "dets": [d], "variants": variants if T else (variants[::2] if d != 525.0 else variants), "n": 300 if not T else 2500})
    P.append({"kind": "big", "n": 20000 if not T else 70001})
    P.append({"kind": "history"})
    fb = [(0, 300), (30, 300), (0, 1650), (300, 1000), (10, 20), (1640, 1650)] + ([(0, 10), (50, 200), (1000, 1650), (0, 50)] if T else [])
    for i in range(2):
        P.append({"kind": "fullbands", "bands": fb[i::2], "seed": 41 + ctx.seed})
    core.run_shards(ctx, "nssmon.checks.c20", "entry", P, workers=16, timeout=ctx.pick(900, 5000))
    ctx.exhaustive_subspaces.append("all 13 695 frequency bands 10a <= lo < hi <= 1650 MHz")
    for m in ("dtype", "fullrun-bands", "energy", "antennas", "order", "order-big-batch", "finite", "range", "range-inside", "bands", "bands-snr", "absolute", "history"):
        ctx.require(m)
    if ctx.mon.get("bands", 0) != len(allb):
        ctx.inconclusive_because(f"only {ctx.mon.get('bands', 0)} of {len(allb)} bands were enumerated")
    if ctx.obs.get("events_outside_range_seen", 0) < 10 or ctx.obs.get("events_inside_range_seen", 0) < 50:
        ctx.inconclusive_because("too few events inside / outside the [0, 10] km range")
    return ctx.finish(
        rule="events from the real geometry, tau and decay stages for detector altitudes {33, 89, 91, 525, 36000} km (the ionosphere branch switches at 90 km), with hostile decay numbers (u = 1, 1-2^-53, ..., 5e-324 -> lenDec in {0, 1e-17 km, ..., huge}), decays placed exactly at the closest approach to the detector, altDec in {0, 10, 10+ulp}; energy factors {0.1, 2, 1e3}; antennas {1, 2, 10, 1000}; TEC with and without tabulated parameters; bands with and without tabulated ionosphere parameters; plus every 10 MHz-aligned band (enumerated); a case is a distinct event or band",
        assumptions=["the global generator is seeded identically for the two runs of a scaling relation (the random geomagnetic / Askaryan / TEC factors are per position)", "antenna gain is positive", "radio_ref transcribes the published formulas with the code's constants"],
        exhaustive=False,
    )
