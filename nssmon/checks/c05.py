"""C05 — tau exit probability is a faithful, bounded interpolation of the tables.

Oracle: own 10 ** bilinear(log10(floored table)) with explicit neighbour indices
(tables read with h5py, not through the code under test). Monitors on the real
``Taus.tau_exit_prob``:
  nodes      every table node reproduced (exhaustive, all three versions)
  interp     value == own log-bilinear model, relative 1e-12
  bounded    between the smallest/largest of the four surrounding floored nodes; in (0, 1]
  clamp      beta < min -> minimum-angle value; beta > max -> 1.19e-7 floor
  reject     out-of-table energy raises (only for events whose angle is <= max)
  history    a scripted sequence of calls on one object equals fresh-object results
             bit for bit; the object's table digest is constant after the first call
"""
import hashlib

import numpy as np

from ..oracles import tables_ref as T

LEVEL = "exploration"
RTOL = 1e-12


def floored(p):
    p = np.array(p, dtype=np.float64, copy=True)
    p[p <= 0] = T.EPS32
    return p


def make_taus(version):
    from nuspacesim.config import NssConfig
    from nuspacesim.simulation.taus.taus import Taus

    c = NssConfig()
    c.simulation.tau_shower.table_version = str(version)
    return Taus(c)


def model(pf, axE, axB, loge, beta):
    bmin, bmax = axB[0], axB[-1]
    b = np.clip(beta, bmin, bmax)
    v = 10.0 ** T.bilinear(np.log10(pf), axE, axB, loge, b)
    return np.where(beta > bmax, T.EPS32, v)


def run(ctx):
    rng = ctx.subrng("c05")
    nrand = ctx.pick(50_000, 1_000_000)
    for version in (1, 2, 3):
        (_, _, _), (pdat, (axE, axB), names) = T.load_tau_tables(version)
        if names != ["log_e_nu", "beta_rad"]:
            ctx.inconclusive_because(f"unexpected pexit axis names {names}")
            continue
        pf = floored(pdat)
        ctx.observe(f"v{version}_nonpositive_entries", int((pdat <= 0).sum()))
        tau = make_taus(version)
        bmin, bmax = float(axB[0]), float(axB[-1])

        def call(beta, loge, obj=None):
            return (obj or tau).tau_exit_prob(np.array(beta, dtype=np.float64), np.array(loge, dtype=np.float64))

        # ---- nodes, exhaustively
        E, B = np.meshgrid(axE, axB, indexing="ij")
        try:
            got = call(B.ravel(), E.ravel()).reshape(E.shape)
            ctx.count("nodes", got.size)
            rel = np.abs(got - pf) / pf
            ctx.track_worst("node_rel", rel.max(), RTOL)
            if not np.all(rel <= RTOL):
                i = np.unravel_index(int(np.argmax(rel)), rel.shape)
                ctx.violation("nodes", f"table v{version}: node (logE={axE[i[0]]}, beta={axB[i[1]]}) gives {got[i]!r}, table (floored) has {pf[i]!r}", {"version": version, "loge": float(axE[i[0]]), "beta": float(axB[i[1]]).hex()})
        except Exception as e:
            ctx.exception("raises", f"table v{version}: evaluating all nodes raised", e, {"version": version})
        # ---- random + edges
        loge = np.concatenate([rng.uniform(6, 12, nrand), rng.choice(axE, 2000), np.full(200, 6.0), np.full(200, 12.0), (axE[:-1] + axE[1:]).repeat(8) / 2])
        n = loge.size
        beta = rng.uniform(bmin, bmax, n)
        k = n // 10
        beta[:k] = rng.choice(axB, k)  # on beta nodes
        beta[k : 2 * k] = rng.uniform(0, bmin, k)  # below min
        beta[2 * k : 3 * k] = rng.uniform(bmax, np.pi / 2, k)  # above max
        beta[3 * k : 3 * k + 8] = [0.0, bmin, np.nextafter(bmin, 0), np.nextafter(bmin, 1), bmax, np.nextafter(bmax, 0), np.nextafter(bmax, 1), np.pi / 2]
        perm = rng.permutation(n)
        loge, beta = loge[perm], beta[perm]
        try:
            got = call(beta, loge)
        except Exception as e:
            ctx.exception("raises", f"table v{version}: in-table batch raised", e, {"version": version})
            continue
        want = model(pf, axE, axB, loge, beta)
        rel = np.abs(got - want) / want
        inr = (beta >= bmin) & (beta <= bmax)
        # above the maximum the property names the value only as "the 1.19e-7 floor": the
        # code's value (10 ** float32 log10 of float32 eps = 1.1920917e-07) is accepted when it
        # is one constant within 0.5 % of 1.19e-7
        high = beta > bmax
        if high.any():
            hv = got[high]
            ok_high = (np.abs(hv - 1.19e-7) <= 5e-3 * 1.19e-7) & (hv == hv[0])
            rel[high] = np.where(ok_high, 0.0, np.maximum(rel[high], 1.0))
        ctx.count("interp", int(inr.sum()))
        ctx.count("clamp", int((~inr).sum()))
        ctx.track_worst("interp_rel", np.nanmax(rel), RTOL)
        bad = ~(rel <= RTOL)
        if bad.any():
            i = int(np.flatnonzero(bad)[0])
            cls = "interp" if inr[i] else "clamp"
            ctx.violation(cls, f"table v{version}: P_exit(logE={loge[i]!r}, beta={beta[i]!r}) = {got[i]!r}, log-bilinear model gives {want[i]!r} ({int(bad.sum())} points)", {"version": version, "loge": float(loge[i]).hex(), "beta": float(beta[i]).hex()})
        # ---- batch layouts: the value of a point must not depend on what else is in the batch.
        #      one energy for the whole batch (off the nodes: what a mono-energetic run at e.g. 8.1
        #      passes; and on a node), blocks of constant energies, sorted energies, single events
        nl = min(n, 3000)
        bl_, el_ = beta[:nl], loge[:nl]
        layouts = [("one off-node energy", np.full(nl, float(rng.uniform(6, 12)))), ("one off-node energy", np.full(nl, 8.1)), ("one tabulated energy", np.full(nl, float(rng.choice(axE)))), ("energy blocks", np.repeat(rng.uniform(6, 12, 6), -(-nl // 6))[:nl]), ("sorted energies", np.sort(el_))]
        for lname, le_ in layouts:
            try:
                g_ = call(bl_, le_)
            except Exception as e:
                ctx.exception("raises", f"table v{version}: in-table batch raised ({lname})", e, {"version": version, "layout": lname})
                continue
            w_ = model(pf, axE, axB, le_, bl_)
            r_ = np.abs(g_ - w_) / w_
            hi_ = bl_ > bmax
            r_[hi_] = np.where(np.abs(g_[hi_] - 1.19e-7) <= 5e-3 * 1.19e-7, 0.0, 1.0)
            ctx.count("layout", nl)
            if not np.all(r_ <= RTOL):
                i = int(np.flatnonzero(~(r_ <= RTOL))[0])
                ctx.violation("interp", f"table v{version} [batch with {lname}]: P_exit(logE={le_[i]!r}, beta={bl_[i]!r}) = {g_[i]!r}, log-bilinear model gives {w_[i]!r} ({int((~(r_ <= RTOL)).sum())} of {nl} points)", {"version": version, "layout": lname, "loge": float(le_[i]).hex(), "beta": float(bl_[i]).hex()})
        for nbig in (65536, 65537, 131072):
            bb_ = np.resize(beta, nbig)
            ll_ = np.resize(loge, nbig)
            try:
                gb_ = call(bb_, ll_)
            except Exception as e:
                ctx.exception("raises", f"table v{version}: in-table batch of {nbig} raised", e, {"version": version, "size": nbig})
                continue
            ctx.count("layout", nbig)
            wb_ = np.resize(got, nbig)
            if gb_.shape != (nbig,) or gb_.tobytes() != wb_.tobytes():
                d_ = np.flatnonzero(gb_ != wb_) if gb_.shape == (nbig,) else np.zeros(1, int)
                i = int(d_[0]) if d_.size else 0
                ctx.violation("interp", f"table v{version}: in a batch of {nbig} events P_exit(logE={ll_[i]!r}, beta={bb_[i]!r}) = {gb_[i] if gb_.shape == (nbig,) else gb_.shape!r}; the same point in the batch of {n} gave {wb_[i]!r} ({d_.size} events differ)", {"version": version, "layout": f"batch of {nbig}", "loge": float(ll_[i]).hex(), "beta": float(bb_[i]).hex()})
        for i in range(0, min(n, 400), 7):
            try:
                g1 = call(beta[i : i + 1], loge[i : i + 1])
            except Exception as e:
                ctx.exception("raises", f"table v{version}: single-event call raised", e, {"version": version})
                break
            ctx.count("layout")
            if not (g1.shape == (1,) and g1[0] == got[i]):
                ctx.violation("interp", f"table v{version}: P_exit(logE={loge[i]!r}, beta={beta[i]!r}) evaluated alone gives {g1!r}, inside the batch {got[i]!r}", {"version": version, "layout": "single", "loge": float(loge[i]).hex(), "beta": float(beta[i]).hex()})
                break
        lo, hi = T.neighbours_minmax(pf, axE, axB, loge, np.clip(beta, bmin, bmax))
        below = beta <= bmax
        ctx.count("bounded", n)
        badb = below & ~((got >= lo * (1 - 1e-12)) & (got <= hi * (1 + 1e-12)))
        badr = ~((got > 0) & (got <= 1.0))
        if badb.any() or badr.any():
            i = int(np.flatnonzero(badb | badr)[0])
            ctx.violation("bounded", f"table v{version}: P_exit(logE={loge[i]!r}, beta={beta[i]!r}) = {got[i]!r} outside the surrounding nodes [{lo[i]!r}, {hi[i]!r}] or outside (0,1]", {"version": version, "loge": float(loge[i]).hex(), "beta": float(beta[i]).hex()})
        ctx.distinct.add_rows(np.full(n, version), loge, beta)
        # ---- Taus.__call__ hands the exit probability on to the integral: same values with the
        #      diagnostic plots requested (angles above the maximum and floored cells included)
        from .. import plotobs, rngctl

        def _call(o, kw, b_, le_):
            with rngctl.stub(rngctl.constant(0.4375)):
                return o(b_, le_, **kw)[4]

        sel = np.flatnonzero(beta <= bmax)[:400]  # (above the maximum the tau stage's speed is NaN and the plots cannot bin it)
        if plotobs.check_stage(ctx, f"table v{version}: Taus.__call__ (exit probability)", lambda: type(tau)(tau.config), _call, (beta[sel], loge[sel]), "interp"):
            pass
        if version == 3:
            for i in range(3):
                ctx.sample({"version": version, "log_e_nu": float(loge[i]), "beta_rad": float(beta[i]), "pexit": float(got[i])})
        # ---- rejection of out-of-table energies
        for badE in [6 - 1e-9, 12 + 1e-9, 5.0, 13.0, float("nan"), float(np.nextafter(6.0, 0)), float(np.nextafter(12.0, 13))]:
            for bb in [bmin, 0.5 * (bmin + bmax), bmax, 0.0, float(np.nextafter(bmax, 4)), float(np.radians(60.0)), float(np.pi / 2)]:  # above the maximum as well
                for pos in (0, 3):
                    b = rng.uniform(bmin, bmax, 5)
                    le = rng.uniform(6, 12, 5)
                    b[pos], le[pos] = bb, badE
                    ctx.count("reject")
                    try:
                        r = call(b, le)
                        ctx.violation("reject", f"table v{version}: energy logE={badE!r} outside the table accepted, P_exit={r[pos]!r}", {"version": version, "loge": repr(badE), "beta": float(bb)})
                    except Exception:
                        pass
        # ---- input dtypes: whole-number angles (0), half / single precision, lists
        for nm, b_, e_ in (("integer beta = 0", np.array([0, 0]), np.array([12.0, 8.0])), ("float16 beta", np.array([0.663, 0.698], dtype=np.float16), np.array([8.3, 8.4])), ("float32 beta and energy", np.array([0.05, 0.4], dtype=np.float32), np.array([6.5, 11.75], dtype=np.float32)), ("bool beta", np.array([False, False]), np.array([9.0, 11.9]))):
            ctx.count("dtype")
            try:
                got_ = np.asarray(call.__wrapped__(b_, e_) if hasattr(call, "__wrapped__") else tau.tau_exit_prob(np.asarray(b_), np.asarray(e_)), dtype=np.float64)
                want_ = np.asarray(tau.tau_exit_prob(np.asarray(b_, dtype=np.float64), np.asarray(e_, dtype=np.float64)))
                if not (got_.shape == want_.shape and np.all(np.abs(got_ - want_) <= 1e-6 * np.abs(want_)) and np.all((got_ > 0) & (got_ <= 1))):
                    ctx.violation("dtype", f"table v{version}: tau_exit_prob with {nm} gives {got_.tolist()}; the same numbers as float64 give {want_.tolist()}", {"version": version, "case": nm})
            except Exception as e:
                ctx.exception("dtype", f"table v{version}: tau_exit_prob with {nm} raised", e, {"version": version, "case": nm})
        # ---- history independence
        script_rng = ctx.subrng("c05-history", version)
        digests = []
        calls = []
        for step in range(ctx.pick(50, 200)):
            m = int(script_rng.choice([1, 2, 3, 17, 257, 4000]))
            le = script_rng.uniform(6, 12, m)
            kind = step % 5
            if kind == 0:
                b = script_rng.uniform(bmin, bmax, m)
            elif kind == 1:
                b = script_rng.uniform(0, bmin, m)
            elif kind == 2:
                b = script_rng.uniform(bmax, np.pi / 2, m)
            elif kind == 3:
                b = script_rng.uniform(0, np.pi / 2, m)
            else:
                b, le = script_rng.choice(axB, m), script_rng.choice(axE, m)
            calls.append((b, le))
        # few keys, many operations: mono-energetic calls (the default spectrum) cycling over a
        # small set of energies and angle classes, so that any per-object cache keyed on the
        # energy or on a previous batch is revisited (A, B, A, C, A ...)
        keysE = [8.0, 10.0, 8.0, 9.5, 8.0, 6.0, 12.0, 6.0, 8.25, 8.0, 10.0, 10.0, 8.0]
        for kk, e in enumerate(keysE * ctx.pick(2, 6)):
            m = int(script_rng.choice([1, 5, 64]))
            b = script_rng.uniform(0, np.pi / 2 if kk % 3 == 0 else bmax, m)
            calls.append((b, np.full(m, e)))
        order = script_rng.permutation(len(calls))
        calls = [calls[i] for i in order[: len(calls) // 2]] + calls[len(calls) // 2 :]
        # the last few calls have the same batch shape and different events: a result the caller still
        # holds must not change when the object is called again (seeded C05-16: work array kept on the object)
        for _ in range(4):
            calls.append((script_rng.uniform(0, bmax, 64), script_rng.uniform(6, 12, 64)))
        hist_obj = make_taus(version)
        held = None
        for step, (b, le) in enumerate(calls):
            b0, le0 = b.copy(), le.copy()
            r_hist = call(b, le, hist_obj)
            if held is not None and np.asarray(held[0]).tobytes() != held[1]:
                ctx.violation("history", f"table v{version}: the result returned by call #{step - 1} changed when the object was called again (call #{step}): the caller's array is the object's work buffer", {"version": version, "step": step})
                break
            held = (r_hist, np.asarray(r_hist).tobytes())
            r_fresh = call(b, le, make_taus(version))
            ctx.count("history")
            if r_hist.tobytes() != r_fresh.tobytes():
                d = int(np.flatnonzero(r_hist != r_fresh)[0])
                ctx.violation("history", f"table v{version}: call #{step} on a used object differs from the same call on a fresh object at event {d}: {r_hist[d]!r} vs {r_fresh[d]!r}", {"version": version, "step": step, "event": d})
                break
            if b.tobytes() != b0.tobytes() or le.tobytes() != le0.tobytes():
                ctx.violation("history", f"table v{version}: call #{step} modified its input arrays", {"version": version, "step": step})
                break
            digests.append(hashlib.sha256(np.ascontiguousarray(hist_obj.pexit_grid.data).tobytes()).hexdigest())
        if digests:
            if len(set(digests)) != 1:
                ctx.violation("history", f"table v{version}: the object's exit-probability table changed between calls ({len(set(digests))} distinct digests over {len(digests)} calls)", {"version": version})
            elif not np.array_equal(np.asarray(hist_obj.pexit_grid.data), pf):
                d = np.asarray(hist_obj.pexit_grid.data)
                if not np.allclose(d, pf, rtol=0, atol=0):
                    ctx.observe(f"v{version}_object_table_differs_from_floored_table", True)
    ctx.exhaustive_subspaces.append("all 25 x 51 nodes of nu2tau_pexit versions 1, 2, 3")
    for m in ("dtype", "nodes", "layout", "plots", "interp", "bounded", "clamp", "reject", "history"):
        ctx.require(m)
    return ctx.finish(
        rule="per table version: all nodes; random (logE, beta) incl. node-aligned, cell-midpoint, below-min, above-max and one-ulp-off-the-clamp angles, logE exactly 6 and 12; a case is a distinct (version, logE, beta); non-trivial = any point (each exercises the interpolation or a clamp)",
        assumptions=["h5py reads the shipped tables correctly", "floor value is float32 eps = 1.1920929e-07", "rejection is only demanded when the out-of-table energy belongs to an event whose angle is looked up (<= max)"],
    )
