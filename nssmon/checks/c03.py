"""C03 — reported acceptance integrals follow from stored event columns and trigger rules.

Oracle: the documented estimator evaluated independently (plain double loops / math.fsum)
from the per-event columns the geometry stage returns (beta, view angle, path length) and the
arrays handed to the real ``mcintegral``:

  diffuse  w_i = sin(beta_i) / cosNV(l_i) / cos(theta_i) * mcnorm_ref, cone cut
           cos(theta_i) >= costhetaChEff_i, x 0.826 x pexit_i, trigger_i >= threshold,
           divided by the number *thrown*; mcnorm_ref = sin^2(cone) 2pi az dG / (12 (R+h)) is the
           harness's own derivation of the sampling normalisation
  target   pi (L_i - lenDec_i)_+^2 tan^2(theta_eff_i), x 0.826 x pexit_i, threshold, dark-sky mask
           for Optical only, divided by the number of sampled instants

Monitors: direct (generated arrays incl. trigger == threshold, cosines +-1/0/on the cone edge,
decay beyond the path), permutation, threshold ladder, bound mcint <= 0.826 geo, call history
(mcintegral calls must not influence one another), and monitored full runs of compute() in both
modes whose header keywords / per-event columns are recomputed from the final table.
"""
import math

import numpy as np

from .. import core, fullrun
from ..oracles import geom_ref as G

LEVEL = "exploration"
BSHR = 0.826


def mcnorm_ref(cfg, lmin, lmax):
    R = G.R_ASTROPY
    Dd = R + cfg.detector.initial_position.altitude
    K = Dd * Dd - R * R
    Gf = lambda v: 3 * K * v - v**3
    return math.sin(cfg.simulation.max_cherenkov_angle) ** 2 * 2 * math.pi * cfg.simulation.max_azimuth_angle * (Gf(lmax) - Gf(lmin)) / (12 * Dd)


def diffuse_oracle(cfg, nthrown, beta, theta, l, trig, cosch, pexit, thr, sn, sw):
    R = G.R_ASTROPY
    alt = cfg.detector.initial_position.altitude
    Dd = R + alt
    K = Dd * Dd - R * R
    aH = G.horizon_nadir_angle(R, alt)
    lmax = G.tangent_length(R, alt)
    lmin = G.los_length_at_nadir(R, alt, aH - cfg.simulation.angle_from_limb)
    norm = mcnorm_ref(cfg, lmin, lmax)
    cosch = np.broadcast_to(np.asarray(cosch, dtype=np.float64), beta.shape)
    geo, full, unc = [], [], 0.0
    npass = 0
    for i in range(beta.size):
        cnv = (K - l[i] * l[i]) / (2 * R * l[i])
        w = math.sin(beta[i]) / cnv / math.cos(theta[i]) * norm
        cond = 4e-16 / max(beta[i], 1e-300) + 4e-16 * K / max(abs(K - l[i] * l[i]), 1e-300)
        if not (math.cos(theta[i]) >= cosch[i]):
            w = 0.0
        geo.append(w)
        f = w * BSHR * pexit[i] / sn / sw
        if trig[i] < thr:
            f = 0.0
        if f != 0:
            npass += 1
        full.append(f)
        unc += abs(w) * cond
    n = float(nthrown)
    return math.fsum(full) / n, math.fsum(geo) / n, npass, (1e-9 * math.fsum(abs(x) for x in geo) + unc) / n


def target_oracle(ntimes, L, lenDec, trig, cosch, pexit, thr, sn, sw, mask):
    cosch = np.broadcast_to(np.asarray(cosch, dtype=np.float64), L.shape)
    geo, full, unc = [], [], 0.0
    for i in range(L.size):
        d = L[i] - lenDec[i]
        c = cosch[i]
        t2 = (1 - c * c) / (c * c) if c != 0 else math.tan(math.acos(0.0)) ** 2
        a = math.pi * d * d * t2 if d > 0 else 0.0
        geo.append(a)
        f = a * BSHR * pexit[i] / sn / sw
        if trig[i] < thr:
            f = 0.0
        if mask is not None and not mask[i]:
            f = 0.0
        full.append(f)
        unc += (math.pi * d * d * 1e-15 / max(c * c * abs(c), 1e-300) if d > 0 else 0.0) + 1e-9 * a
    n = float(ntimes)
    return math.fsum(full) / n, math.fsum(geo) / n, sum(1 for x in full if x != 0), unc / n, np.array(full)


def relclose(a, b):
    return a == b or abs(a - b) <= 1e-12 * max(abs(a), abs(b))


def close(a, b, tol):
    return abs(a - b) <= tol + 1e-300


def gen_arrays(rng, nk, theta, thr):
    trig = rng.uniform(0, 2 * thr, nk) if rng.random() < 0.7 else rng.poisson(thr, nk).astype(float)
    eq = rng.random(nk) < 0.15
    trig[eq] = thr  # exactly on the threshold: contributes
    trig[rng.random(nk) < 0.05] = np.nextafter(thr, -np.inf)
    c = np.cos(theta * rng.uniform(0.2, 3.0, nk))
    sel = rng.random(nk)
    c = np.where(sel < 0.1, np.cos(theta), c)  # exactly on the cone edge: inside
    c = np.where((sel >= 0.1) & (sel < 0.15), np.nextafter(np.cos(theta), 2), c)  # just outside
    c = np.where((sel >= 0.15) & (sel < 0.18), 1.0, c)
    c = np.where((sel >= 0.18) & (sel < 0.21), -1.0, c)
    c = np.where((sel >= 0.21) & (sel < 0.23), 0.0, c)
    pexit = 10 ** rng.uniform(-7, 0, nk)
    pexit[rng.random(nk) < 0.05] = 1.0
    return trig, np.clip(c, -1, 1), pexit


def direct_diffuse(ctx, rng, ncfg, nev):
    from nuspacesim.config import NssConfig
    from nuspacesim.simulation.geometry.region_geometry import RegionGeom

    for ci in range(ncfg):
        cfg = NssConfig()
        alt = float(rng.choice([5.0, 33.0, 525.0, 1000.0, 36000.0]))
        cfg.detector.initial_position.altitude = alt
        aH = G.horizon_nadir_angle(G.R_ASTROPY, alt)
        cfg.simulation.angle_from_limb = float(rng.choice([0.1, 0.5, 0.9]) * aH) if (rng.random() < 0.6 or np.radians(7) >= aH) else cfg.simulation.angle_from_limb
        cfg.simulation.max_cherenkov_angle = float(np.radians(rng.choice([0.5, 3.0, 20.0, 60.0])))
        cfg.simulation.max_azimuth_angle = float(np.radians(rng.choice([1.0, 90.0, 360.0])))
        cfg = core.validated(cfg, "C03 diffuse configuration")
        wit = {"mode": "Diffuse", "altitude": alt, "limb": cfg.simulation.angle_from_limb, "cone": cfg.simulation.max_cherenkov_angle, "az": cfg.simulation.max_azimuth_angle}
        g = RegionGeom(cfg)
        N = int(nev)
        u = rng.uniform(0, 1, (4, N))
        u[3, :5] = [1e-9, 1e-6, 1 - 1e-9, 0.5, 1e-3]
        g.throw(u)
        beta, theta, l = np.array(g.beta_rad()), np.array(g.thetas()), np.array(g.pathLens())
        nk = beta.size
        if nk == 0:
            continue
        thr = float(rng.choice([10.0, 5.0, 0.37]))
        trig, cosch, pexit = gen_arrays(rng, nk, theta, thr)
        for variant in ("array-cone", "scalar-cone", "spectrum-factors"):
            cc = cosch if variant != "scalar-cone" else float(np.cos(cfg.simulation.max_cherenkov_angle))
            sn, sw = (1.0, 1.0) if variant != "spectrum-factors" else (3.7e-9, 1 / 3.7e-9)
            args0 = [a.copy() if isinstance(a, np.ndarray) else a for a in (trig, cc, pexit)]
            try:
                mc, geo, npass, _ = g.mcintegral(trig, cc, pexit, thr, sn, sw)
            except Exception as e:
                ctx.exception("raises", f"Diffuse mcintegral raised on valid arrays ({variant})", e, wit)
                continue
            rmc, rgeo, rn, tol = diffuse_oracle(cfg, N, beta, theta, l, trig, cc, pexit, thr, sn, sw)
            ctx.count("direct-diffuse", nk)
            if not (close(mc, rmc, tol) and close(geo, rgeo, tol) and int(npass) == rn):
                ctx.violation("diffuse-estimator", f"Diffuse [{variant}] altitude {alt} km, {nk} of {N} kept: mcintegral returned (integral {mc!r}, geo {geo!r}, passing {npass}); independent evaluation from the event columns gives ({rmc!r}, {rgeo!r}, {rn})", dict(wit, variant=variant, threshold=thr))
            for a, a0 in zip((trig, cc, pexit), args0):
                if isinstance(a, np.ndarray) and a.tobytes() != a0.tobytes():
                    ctx.violation("inputs-modified", "Diffuse mcintegral modified an input array", wit)
            if not mc <= BSHR * geo * (1 + 1e-12) + 1e-300:
                ctx.violation("bound", f"Diffuse integral {mc!r} exceeds 0.826 x geometric integral {geo!r}", wit)
        # ---- the same per-event values as half / single precision arrays give the float64 answer
        for dt in (np.float16, np.float32):
            pe_, tr_, cc_ = pexit.astype(dt), trig.astype(np.float32).astype(dt), np.clip(cosch.astype(dt), -1, 1)
            ctx.count("dtype")
            try:
                got = g.mcintegral(tr_.copy(), cc_.copy(), pe_.copy(), thr, 1.0, 1.0)[:3]
                want = g.mcintegral(tr_.astype(np.float64), cc_.astype(np.float64), pe_.astype(np.float64), thr, 1.0, 1.0)[:3]
                if not (relclose(got[0], want[0]) and relclose(got[1], want[1]) and int(got[2]) == int(want[2])):
                    ctx.violation("dtype", f"Diffuse altitude {alt} km: mcintegral with {np.dtype(dt).name} trigger / cosine / exit-probability arrays returns (integral {got[0]!r}, geo {got[1]!r}, passing {got[2]}); the same numbers as float64 give ({want[0]!r}, {want[1]!r}, {want[2]})", dict(wit, dtype=np.dtype(dt).name))
            except Exception as e:
                ctx.exception("dtype", f"Diffuse mcintegral with {np.dtype(dt).name} arrays raised", e, wit)
        # ---- exactly one surviving trajectory (alone, and among several thrown)
        kept_ = np.asarray(g.event_mask, bool)
        ki, di = np.flatnonzero(kept_), np.flatnonzero(~kept_)
        for sel in ([int(ki[0])], ([int(x) for x in di[:5]] + [int(ki[-1])]) if di.size else None):
            if sel is None:
                continue
            g1 = RegionGeom(cfg)
            g1.throw(u[:, sel].copy())
            b1, t1, l1 = np.array(g1.beta_rad()), np.array(g1.thetas()), np.array(g1.pathLens())
            if b1.size != 1:
                continue
            tr1, c1, p1 = np.array([2.0 * thr]), np.cos(1.5 * t1), np.array([0.5])  # inside its effective cone
            try:
                mc, geo, npass, _ = g1.mcintegral(tr1, c1, p1, thr, 1.0, 1.0)
            except Exception as e:
                ctx.exception("raises", f"Diffuse mcintegral raised with one surviving trajectory of {len(sel)} thrown", e, wit)
                continue
            rmc, rgeo, rn, tol = diffuse_oracle(cfg, len(sel), b1, t1, l1, tr1, c1, p1, thr, 1.0, 1.0)
            if rn != 1:
                continue
            ctx.count("single-survivor")
            if not (close(mc, rmc, tol) and close(geo, rgeo, tol) and int(npass) == rn):
                ctx.violation("diffuse-estimator", f"Diffuse altitude {alt} km, one surviving trajectory of {len(sel)} thrown: mcintegral returned (integral {mc!r}, geo {geo!r}, passing {npass}); independent evaluation gives ({rmc!r}, {rgeo!r}, {rn})", dict(wit, thrown=len(sel), survivors=1))
        ctx.distinct.add_rows(np.full(nk, alt), beta, theta, l, trig, cosch, pexit)
        if ci == 0:
            ctx.sample({"mode": "Diffuse", "config": wit, "thrown": N, "kept": nk, "threshold": thr, "first_event": {"beta": float(beta[0]), "theta": float(theta[0]), "path_len": float(l[0]), "trigger": float(trig[0]), "cosChEff": float(cosch[0]), "pexit": float(pexit[0])}})
        # ---- threshold ladder (non-increasing), history independence
        try:
            base = g.mcintegral(trig, cosch, pexit, thr, 1.0, 1.0)
        except Exception as e:  # (after single-survivor throws on other objects)
            ctx.exception("raises", "Diffuse mcintegral raised on valid arrays after other geometry objects were used", e, wit)
            continue
        prev = None
        for t in sorted(set([0.0, thr * 0.5, np.nextafter(thr, 0), thr, np.nextafter(thr, np.inf), thr * 2, 1e9])):
            v = g.mcintegral(trig, cosch, pexit, float(t), 1.0, 1.0)
            ctx.count("threshold-ladder")
            if prev is not None and v[0] > prev[0] * (1 + 1e-12) + 1e-300:
                ctx.violation("threshold-monotone", f"Diffuse integral rises from {prev[0]!r} to {v[0]!r} when the threshold rises to {t!r}", wit)
            if v[1] != base[1]:
                ctx.violation("diffuse-estimator", f"Diffuse geometric integral depends on the threshold ({v[1]!r} vs {base[1]!r})", wit)
            prev = v
        again = g.mcintegral(trig, cosch, pexit, thr, 1.0, 1.0)
        ctx.count("history")
        if tuple(map(float, again[:3])) != tuple(map(float, base[:3])):
            ctx.violation("history", f"Diffuse mcintegral: the same call after other calls on the same object returns {again[:3]!r} instead of {base[:3]!r}", wit)
        # ---- permutation of the thrown events
        perm = rng.permutation(N)
        g2 = RegionGeom(cfg)
        g2.throw(u[:, perm])
        kept = np.asarray(g.event_mask, bool)
        pos = np.empty(N, int)
        pos[np.flatnonzero(kept)] = np.arange(nk)
        order = pos[perm][np.asarray(g2.event_mask, bool)]
        pm = g2.mcintegral(trig[order], cosch[order], pexit[order], thr, 1.0, 1.0)
        ctx.count("permutation")
        if not (close(pm[0], base[0], 1e-12 * abs(base[0]) + 1e-12 * abs(base[1])) and close(pm[1], base[1], 1e-11 * abs(base[1])) and pm[2] == base[2]):
            ctx.violation("permutation", f"Diffuse integral changes under event reordering: {pm[:3]!r} vs {base[:3]!r}", wit)
        # ---- the same reordering thrown on the *used* object (same number of kept events as before: a weight
        #      cache that is refreshed only when that count changes goes stale here, seeded C03-15), and two
        #      objects thrown first and integrated afterwards (state shared between objects, seeded C01-17)
        try:
            g.throw(u[:, perm])
            pm2 = g.mcintegral(trig[order], cosch[order], pexit[order], thr, 1.0, 1.0)
            ctx.count("permutation")
            if not (close(pm2[0], base[0], 1e-12 * abs(base[0]) + 1e-12 * abs(base[1])) and close(pm2[1], base[1], 1e-11 * abs(base[1])) and pm2[2] == base[2]):
                ctx.violation("permutation", f"Diffuse integral of the reordered events thrown again on the same object: {pm2[:3]!r} vs {base[:3]!r}", wit)
            cfgB = cfg.model_copy(deep=True)
            cfgB.detector.initial_position.altitude = float(alt) * 1.7 + 3.0
            cfgB.simulation.max_cherenkov_angle = float(np.radians(1.5))
            cfgB = core.validated(cfgB, "C03 second diffuse configuration")
            uB = rng.uniform(0, 1, (4, N))

            def integ(obj):
                n_ = int(np.count_nonzero(np.asarray(obj.event_mask, bool)))
                th_ = np.array(obj.thetas())
                return tuple(float(x) for x in obj.mcintegral(np.full(n_, 2 * thr), np.cos(th_ * 1.5 + 1e-3), np.full(n_, 0.25), thr, 1.0, 1.0)[:3])

            gA, gB = RegionGeom(cfg), RegionGeom(cfgB)
            gA.throw(u)
            gB.throw(uB)
            rA, rB = integ(gA), integ(gB)
            rA2 = integ(gA)
            sA, sB = RegionGeom(cfg), RegionGeom(cfgB)
            sA.throw(u)
            wA = integ(sA)
            sB.throw(uB)
            wB = integ(sB)
            ctx.count("side-by-side")
            if not (rA == wA and rB == wB and rA2 == wA):
                ctx.violation("side-by-side", f"two geometry objects thrown first and integrated afterwards give {rA!r} / {rB!r} (again {rA2!r}); each thrown and integrated on its own gives {wA!r} / {wB!r}", wit)
        except Exception as e:
            ctx.exception("raises", "re-throw / side-by-side integrals raised", e, wit)


def horizon_face(ctx):
    """u4 = 0 is the horizon itself: the line of sight is tangent to the ground (cos theta_NV = 0), the
    per-event weight diverges there (an integrable singularity of the estimator). The code keeps such an
    event and gives it whatever 1 / cos(theta_NV) rounds to: a huge negative, +inf or NaN weight, so the
    reported integral is negative / not monotone in the threshold / above 0.826 x the geometric one.
    Probed on the face itself and one ulp-scale step inside; classified by mechanism."""
    from nuspacesim.config import NssConfig
    from nuspacesim.simulation.geometry.region_geometry import RegionGeom

    for alt in (33.0, 525.0, 300.0, 36000.0, 10.0, 600.0):
        cfg = NssConfig()
        cfg.detector.initial_position.altitude = alt
        aH = G.horizon_nadir_angle(G.R_ASTROPY, alt)
        if np.radians(7) >= aH:
            cfg.simulation.angle_from_limb = float(0.5 * aH)
        cfg = core.validated(cfg, "C03 horizon-face configuration")
        g = RegionGeom(cfg)
        u = np.array([[0.5, 0.5, 0.5, 0.5], [0.5, 0.5, 0.5, 0.5], [0.5, 0.5, 0.5, 0.5], [0.0, 2.0**-53, 1e-15, 0.5]])
        g.throw(u)
        nk = int(np.sum(g.event_mask))
        if nk == 0:
            continue
        with np.errstate(all="ignore"):
            mc, geo, npass, _ = g.mcintegral(np.full(nk, 100.0), -1.0, np.full(nk, 0.5), 10.0, 1.0, 1.0)
            cnv = np.asarray(g.costhetaNSubV)[np.asarray(g.event_mask, bool)]
        ctx.count("horizon-face")
        if not (np.isfinite(mc) and np.isfinite(geo) and mc >= 0 and geo >= 0 and mc <= BSHR * geo * (1 + 1e-12)):
            on_face = bool(np.any(~(cnv > 0)))
            key = "diffuse:horizon-face-weight" if on_face else "bound"
            ctx.violation(key, f"Diffuse altitude {alt} km: a batch containing the horizon itself (u4 in {{0, 2^-53, 1e-15}}; cos(theta_NV) of the kept events {cnv.tolist()}) gives integral {mc!r}, geometric {geo!r}, passing {npass}", {"altitude": alt, "u4": [0.0, 2.0**-53, 1e-15]})


def target_cfg(rng, k):
    from nuspacesim.config import NssConfig

    c = NssConfig()
    c.simulation.mode = "Target"
    if k % 3 == 1:
        c.detector.initial_position.altitude = 33.0
        c.simulation.spectrum.log_nu_energy = 10.5
    if k % 3 == 2:
        c.simulation.target.source_RA = float(rng.uniform(0, 2 * np.pi))
        c.simulation.target.source_DEC = float(rng.uniform(-0.6, 0.6))
        c.simulation.target.source_date = f"20{int(rng.integers(20, 30))}-0{int(rng.integers(1, 10))}-1{int(rng.integers(0, 10))}T0{int(rng.integers(0, 10))}:00:00"
    c.detector.sun_moon.sun_moon_cuts = bool(k % 2 == 0)
    if k % 4 == 2:
        c.detector.sun_moon.sun_alt_cut = float(np.radians(rng.uniform(-30, 10)))
        c.detector.sun_moon.moon_min_phase_angle_cut = float(np.radians(rng.uniform(0, 180)))
    return core.validated(c, "C03 target configuration")


def direct_target(ctx, rng, ncfg, nev):
    from nuspacesim.simulation.geometry.region_geometry import RegionGeomToO

    done = 0
    for ci in range(ncfg * 3):
        if done >= ncfg:
            break
        cfg = target_cfg(rng, ci)
        N = int(nev)
        # every third configuration: a long observation (30 d, many day / night cycles between
        # neighbouring kept instants) sampled at instants given in *shuffled* order (throw accepts any
        # array of fractions): the dark-sky condition is a property of each event's own time
        shuffled = ci % 2 == 1
        if shuffled:
            cfg.simulation.target.source_obst = 30 * 86400.0
            cfg.detector.sun_moon.sun_moon_cuts = True
        g = RegionGeomToO(cfg)
        fr0 = rng.permutation(N) / N if shuffled else None
        g.throw(fr0.copy() if shuffled else N)
        L = np.array(g.pathLens())
        nk = L.size
        if nk == 0:
            continue
        done += 1
        wit = {"mode": "Target", "altitude": cfg.detector.initial_position.altitude, "RA": cfg.simulation.target.source_RA, "DEC": cfg.simulation.target.source_DEC, "date": cfg.simulation.target.source_date, "sun_moon_cuts": cfg.detector.sun_moon.sun_moon_cuts}
        theta = np.full(nk, np.radians(1.5))
        thr = float(rng.choice([10.0, 5.0]))
        trig, cosch, pexit = gen_arrays(rng, nk, theta, thr)
        # cos = -1 exactly (an effective angle of 180 deg) is not judged in target mode: the
        # documented area pi d^2 tan^2(theta) is 0 there, the code's tan(arccos(-1))^2 is 1.5e-32,
        # which only differs in whether a ~1e-30 contribution counts as "passing"
        cosch = np.where(cosch == -1.0, np.nextafter(-1.0, 0), cosch)
        lenDec = np.abs(rng.exponential(0.3, nk)) * L
        lenDec[rng.random(nk) < 0.1] = 0.0
        lenDec[rng.random(nk) < 0.15] = L[0] * 1.5 + 10  # decay beyond the detector
        if nk > 3:
            lenDec[3] = L[3]  # exactly at the detector
        mask = np.asarray(g.too_source.sun_moon_cut(g.val_times()), bool)
        ctx.obs["target_dark_instants_seen"] = ctx.obs.get("target_dark_instants_seen", 0) + int(mask.sum())
        ctx.obs["target_bright_instants_seen"] = ctx.obs.get("target_bright_instants_seen", 0) + int((~mask).sum())
        # the two channels are evaluated one after the other on the *same* arrays, as a full run does;
        # the oracle reads pristine copies
        trig0, cosch0, pexit0, lenDec0 = trig.copy(), cosch.copy(), pexit.copy(), lenDec.copy()
        for dt in (np.float16, np.float32):
            pe_, tr_, cc_, ld_ = pexit0.astype(dt), trig0.astype(np.float32).astype(dt), np.clip(cosch0.astype(dt), np.nextafter(dt(-1), dt(0)), 1), np.minimum(lenDec0, 6e4).astype(dt)
            ctx.count("dtype")
            try:
                with np.errstate(all="ignore"):
                    got = g.mcintegral(tr_.copy(), cc_.copy(), pe_.copy(), thr, 1.0, 1.0, lenDec=ld_.copy(), method="Optical")[:3]
                    want = g.mcintegral(tr_.astype(np.float64), cc_.astype(np.float64), pe_.astype(np.float64), thr, 1.0, 1.0, lenDec=ld_.astype(np.float64), method="Optical")[:3]
                if not (relclose(got[0], want[0]) and relclose(got[1], want[1]) and int(got[2]) == int(want[2])):
                    ctx.violation("dtype", f"Target: mcintegral with {np.dtype(dt).name} trigger / cosine / exit-probability / decay-length arrays returns (integral {got[0]!r}, geo {got[1]!r}, passing {got[2]}); the same numbers as float64 give ({want[0]!r}, {want[1]!r}, {want[2]})", dict(wit, dtype=np.dtype(dt).name))
            except Exception as e:
                ctx.exception("dtype", f"Target mcintegral with {np.dtype(dt).name} arrays raised", e, wit)
        for method in ("Optical", "Radio"):
            stored = {}

            def store(names, cols, *a, **k):
                for n_, c_ in zip(names, cols):
                    stored[n_] = np.array(c_, copy=True)

            cc = cosch if method == "Optical" else float(np.cos(cfg.simulation.max_cherenkov_angle))
            try:
                mc, geo, npass, _ = g.mcintegral(trig, cc, pexit, thr, 1.0, 1.0, lenDec=lenDec, method=method, store=store)
            except Exception as e:
                ctx.exception("raises", f"Target mcintegral [{method}] raised on valid arrays", e, wit)
                continue
            use_mask = mask if (method == "Optical" and cfg.detector.sun_moon.sun_moon_cuts) else None
            cc0 = cosch0 if method == "Optical" else cc
            rmc, rgeo, rn, tol, percol = target_oracle(N, L, lenDec0, trig0, cc0, pexit0, thr, 1.0, 1.0, use_mask)
            ctx.count("direct-target", nk)
            for nm_, a_, a0_ in (("triggers", trig, trig0), ("costhetaChEff", cosch, cosch0), ("tauexitprob", pexit, pexit0), ("lenDec", lenDec, lenDec0)):
                if a_.tobytes() != a0_.tobytes():
                    ctx.violation("inputs-modified", f"Target mcintegral [{method}] modified its {nm_} array ({int((a_ != a0_).sum())} of {nk} entries; the next channel is evaluated on the same array)", dict(wit, method=method, argument=nm_))
                    a_[...] = a0_
            if not (close(mc, rmc, tol) and close(geo, rgeo, tol) and int(npass) == rn):
                ctx.violation("target-estimator", f"Target [{method}] {nk} of {N} instants kept, sun_moon_cuts={cfg.detector.sun_moon.sun_moon_cuts}: mcintegral returned (integral {mc!r}, geo {geo!r}, passing {npass}); independent evaluation gives ({rmc!r}, {rgeo!r}, {rn})", dict(wit, method=method, threshold=thr))
            col = stored.get("tmcintopt" if method == "Optical" else "tmcintrad")
            ctx.count("target-column")
            if col is None or col.shape != percol.shape or not np.all(np.abs(col - percol) <= 1e-9 * np.abs(percol) + tol * N):
                ctx.violation("target-column", f"Target [{method}]: the stored per-event column does not equal the per-event contributions ({'missing' if col is None else 'values differ'})", dict(wit, method=method))
            if not mc <= BSHR * geo * (1 + 1e-12) + 1e-300:
                ctx.violation("bound", f"Target [{method}] integral {mc!r} exceeds 0.826 x geometric integral {geo!r}", wit)
        # ---- exactly one surviving instant (one instant thrown, and one kept among a few thrown)
        hm_ = np.asarray(g.horizon_mask, bool)
        kept_ = np.zeros(N, bool)
        kept_[np.flatnonzero(hm_)[np.asarray(g.volume_mask, bool)]] = True
        ki, di = np.flatnonzero(kept_), np.flatnonzero(~kept_)
        for sel in ([int(ki[0])], ([int(x) for x in di[:: max(1, di.size // 4)][:4]] + [int(ki[-1])]) if di.size else None):
            if sel is None or shuffled:
                continue
            g1 = RegionGeomToO(cfg)
            g1.throw(np.asarray(sel, dtype=np.float64) / N)
            L1 = np.array(g1.pathLens())
            if L1.size != 1:
                continue
            m1 = np.asarray(g1.too_source.sun_moon_cut(g1.val_times()), bool)
            for method in ("Optical", "Radio"):
                tr1, c1, p1, d1 = np.array([2.0 * thr]), np.array([1.0 - 1e-6]), np.array([0.5]), np.array([0.25 * L1[0]])
                try:
                    mc, geo, npass, _ = g1.mcintegral(tr1, c1, p1, thr, 1.0, 1.0, lenDec=d1, method=method)
                except Exception as e:
                    ctx.exception("raises", f"Target mcintegral [{method}] raised with one surviving instant of {len(sel)}", e, wit)
                    continue
                um = m1 if (method == "Optical" and cfg.detector.sun_moon.sun_moon_cuts) else None
                rmc, rgeo, rn, tol, _pc = target_oracle(len(sel), L1, d1, tr1, c1, p1, thr, 1.0, 1.0, um)
                ctx.count("single-survivor")
                if not (close(mc, rmc, tol) and close(geo, rgeo, tol) and int(npass) == rn):
                    ctx.violation("target-estimator", f"Target [{method}] one surviving instant of {len(sel)} sampled: mcintegral returned (integral {mc!r}, geo {geo!r}, passing {npass}); independent evaluation gives ({rmc!r}, {rgeo!r}, {rn})", dict(wit, method=method, sampled=len(sel), survivors=1))
        # radio must ignore the dark-sky mask; optical can only lose events through it
        if cfg.detector.sun_moon.sun_moon_cuts and (~mask).any():
            o = g.mcintegral(trig, cosch, pexit, thr, 1.0, 1.0, lenDec=lenDec, method="Optical")
            r = g.mcintegral(trig, cosch, pexit, thr, 1.0, 1.0, lenDec=lenDec, method="Radio")
            ctx.count("dark-sky-channel")
            if not (o[0] <= r[0] * (1 + 1e-12) + 1e-300 and o[2] <= r[2] and close(o[1], r[1], 1e-12 * abs(r[1]))):
                ctx.violation("dark-sky-channel", f"Target: with identical inputs the optical result {o[:3]!r} is not the radio result {r[:3]!r} minus the bright-sky events", wit)
        # a second throw on the same object (the same instants in reverse order: same number of
        # kept events, different dark-sky pattern): nothing from the first throw may survive
        if cfg.detector.sun_moon.sun_moon_cuts:
            g.throw((np.arange(N) / N)[::-1].copy())
            L2 = np.array(g.pathLens())
            if L2.size == nk:
                mask2 = np.asarray(g.too_source.sun_moon_cut(g.val_times()), bool)
                o2 = g.mcintegral(trig, cosch, pexit, thr, 1.0, 1.0, lenDec=np.minimum(lenDec, 0.5 * L2), method="Optical")
                r2 = target_oracle(N, L2, np.minimum(lenDec, 0.5 * L2), trig, cosch, pexit, thr, 1.0, 1.0, mask2)
                ctx.count("rethrow", nk)
                if not (close(o2[0], r2[0], r2[3]) and int(o2[2]) == r2[2]):
                    ctx.violation("history", f"Target [Optical]: after a second throw on the same object (instants reversed) mcintegral returns (integral {o2[0]!r}, passing {o2[2]}); independent evaluation with the dark-sky mask of the *current* instants gives ({r2[0]!r}, {r2[2]})", wit)
            g.throw(fr0.copy() if shuffled else N)
        # threshold ladder + history
        base = g.mcintegral(trig, cosch, pexit, thr, 1.0, 1.0, lenDec=lenDec, method="Radio")
        prev = None
        for t in sorted(set([0.0, thr * 0.5, np.nextafter(thr, 0), thr, np.nextafter(thr, np.inf), thr * 2, 1e9])):
            v = g.mcintegral(trig, cosch, pexit, float(t), 1.0, 1.0, lenDec=lenDec, method="Optical")
            ctx.count("threshold-ladder")
            if prev is not None and v[0] > prev[0] * (1 + 1e-12) + 1e-300:
                ctx.violation("threshold-monotone", f"Target integral rises from {prev[0]!r} to {v[0]!r} when the threshold rises to {t!r}", wit)
            prev = v
        again = g.mcintegral(trig, cosch, pexit, thr, 1.0, 1.0, lenDec=lenDec, method="Radio")
        ctx.count("history")
        if tuple(map(float, again[:3])) != tuple(map(float, base[:3])) or not np.array_equal(np.array(g.pathLens()), L):
            ctx.violation("history", f"Target mcintegral: the same call after other calls on the same object returns {again[:3]!r} instead of {base[:3]!r} (or the object's path lengths changed)", wit)
        # permutation (of the arrays together with the instants is not expressible through throw(N);
        # reordering the kept events' arrays must at least permute the stored column)
        ctx.distinct.add_rows(L, lenDec, trig, cosch, pexit)
        if done == 1:
            ctx.sample({"mode": "Target", "config": wit, "instants": N, "kept": nk, "first_event": {"path_len": float(L[0]), "lenDec": float(lenDec[0]), "trigger": float(trig[0]), "cosChEff": float(cosch[0]), "dark": bool(mask[0])}})


def meta_val(sim, k):
    v = sim.meta.get(k)
    return v[0] if isinstance(v, tuple) else v


def fullruns(ctx, si, payload):
    """Monitored compute() runs; header keywords recomputed from the final table."""
    from nuspacesim.config import NssConfig, Simulation

    for k, spec in enumerate(payload["runs"]):
        rng = ctx.subrng("c03-full", si, k)
        cfg = NssConfig()
        mode, alt, spectrum, cloud, thr_o, thr_r, nthrown, smc = spec
        cfg.simulation.mode = mode
        cfg.detector.initial_position.altitude = alt
        cfg.simulation.thrown_events = nthrown
        if spectrum == "power":
            cfg.simulation.spectrum = Simulation.PowerSpectrum(index=2.0, lower_bound=7.0, upper_bound=10.5)
        elif spectrum == "power1":
            cfg.simulation.spectrum = Simulation.PowerSpectrum(index=1.0, lower_bound=8.0, upper_bound=10.0)
        elif isinstance(spectrum, float):
            cfg.simulation.spectrum.log_nu_energy = spectrum
        if cloud == "mono":
            cfg.simulation.cloud_model = Simulation.MonoCloud(altitude=2.0)
        elif cloud == "map":
            cfg.simulation.cloud_model = Simulation.PressureMapCloud(month=7)
        cfg.detector.optical.photo_electron_threshold = thr_o
        cfg.detector.radio.snr_threshold = thr_r
        cfg.detector.sun_moon.sun_moon_cuts = smc
        cfg = core.validated(cfg, f"C03 full run {spec}")
        wit = {"run": list(map(str, spec))}
        sim, log = fullrun.compute(cfg, seed=int(rng.integers(2**31)))
        if log.exception is not None:
            ctx.exception("raises", f"compute() raised for run {spec}", log.exception, wit)
            continue
        n = len(sim)
        ctx.obs.setdefault("full_runs", []).append({"run": wit["run"], "rows": n, "OMCINT": float(meta_val(sim, "OMCINT") or 0), "ONEVPASS": int(meta_val(sim, "ONEVPASS") or 0), "RMCINT": float(meta_val(sim, "RMCINT") or 0), "RNEVPASS": int(meta_val(sim, "RNEVPASS") or 0)})
        if n == 0:
            continue
        col = lambda c: np.asarray(sim[c], dtype=np.float64)
        snr = log.snr[0]["result"] if log.snr else None
        sn_sw = 1.0  # the two spectrum factors multiply to one (C12); compute() divides by both
        for method, pre in (("Optical", "O"), ("Radio", "R")):
            trig = col("numPEs") if method == "Optical" else snr
            cc = col("costhetaChEff") if method == "Optical" else float(np.cos(cfg.simulation.max_cherenkov_angle))
            thr = thr_o if method == "Optical" else thr_r
            if trig is None:
                ctx.inconclusive_because("calculate_snr probe saw no call")
                continue
            got = (float(meta_val(sim, pre + "MCINT")), float(meta_val(sim, pre + "MCINTGO")), int(meta_val(sim, pre + "NEVPASS")))
            if mode == "Diffuse":
                rmc, rgeo, rn, tol = diffuse_oracle(cfg, nthrown, col("beta_rad"), col("theta_rad"), col("path_len"), trig, cc, col("tauExitProb"), thr, 1.0, sn_sw)
                key = "diffuse-estimator"
            else:
                mask = None
                if method == "Optical" and smc:
                    mask = np.asarray(log.geom.too_source.sun_moon_cut(sim["times"]), bool)
                rmc, rgeo, rn, tol, percol = target_oracle(nthrown, col("path_len"), col("lenDec"), trig, cc, col("tauExitProb"), thr, 1.0, sn_sw, mask)
                key = "target-estimator"
                cname = "tmcintopt" if method == "Optical" else "tmcintrad"
                ctx.count("fullrun-column")
                if cname not in sim.colnames or not np.all(np.abs(col(cname) - percol) <= 1e-9 * np.abs(percol) + tol * nthrown):
                    ctx.violation("target-column", f"full Target run {spec}: column {cname} does not equal the per-event contributions recomputed from the table", dict(wit, method=method))
            ctx.count("fullrun-keywords", n)
            ctx.distinct.add((tuple(wit["run"]), method))
            if not (close(got[0], rmc, tol + 1e-9 * abs(rmc)) and close(got[1], rgeo, tol) and got[2] == rn):
                ctx.violation(key, f"full {mode} run {spec} [{method}]: header ({pre}MCINT, {pre}MCINTGO, {pre}NEVPASS) = {got!r}; recomputed from the table's own columns: ({rmc!r}, {rgeo!r}, {rn})", dict(wit, method=method))
            if si == 0 and k == 0:
                ctx.sample({"full_run": wit["run"], "method": method, "header": list(got), "recomputed": [rmc, rgeo, rn]})


def direct(ctx, si, payload):
    rng = ctx.subrng("c03-direct", si)
    if payload["what"] == "diffuse":
        direct_diffuse(ctx, rng, payload["ncfg"], payload["nev"])
    else:
        direct_target(ctx, rng, payload["ncfg"], payload["nev"])


def shard(ctx, si, payload):
    if payload["kind"] == "direct":
        direct(ctx, si, payload)
    else:
        fullruns(ctx, si, payload)


def run(ctx):
    T = ctx.thorough()
    horizon_face(ctx)
    runs = [
        ("Diffuse", 525.0, None, None, 10.0, 0.002, 400, True),
        ("Diffuse", 33.0, "power", "mono", 5.0, 0.0005, 400, True),
        ("Target", 525.0, None, None, 10.0, 0.0005, 3000, True),
        ("Target", 33.0, 10.5, None, 3.0, 0.0005, 4000, False),
        ("Diffuse", 1000.0, "power1", "map", 2.0, 0.001, 600, True),  # the 1/E spectrum has its own branch in every spectrum factor
    ]
    if T:
        runs += [
            ("Target", 1000.0, "power1", None, 2.0, 0.0, 3000, True),
            ("Diffuse", 525.0, 9.5, None, 10.0, 5.0, 500, False),
            ("Diffuse", 33.0, 11.0, "mono", 100.0, 0.0001, 500, True),
            ("Diffuse", 2000.0, "power", None, 1.0, 0.001, 500, True),
            ("Target", 525.0, "power", "mono", 1.0, 0.0001, 5000, False),
            ("Target", 1000.0, 10.0, None, 5.0, 0.001, 5000, True),
            ("Target", 33.0, 11.0, "map", 10.0, 0.0002, 5000, True),
            ("Target", 525.0, 9.0, None, 0.5, 5.0, 3000, True),
        ]
    payloads = [{"kind": "full", "runs": [r]} for r in runs]
    nd = ctx.pick(4, 12)
    payloads += [{"kind": "direct", "what": "diffuse", "ncfg": ctx.pick(6, 30), "nev": ctx.pick(3000, 6000)} for _ in range(nd)]
    payloads += [{"kind": "direct", "what": "target", "ncfg": ctx.pick(2, 6), "nev": ctx.pick(2500, 6000)} for _ in range(nd)]
    core.run_shards(ctx, "nssmon.checks.c03", "shard", payloads, workers=min(16, len(payloads)))
    for m in ("dtype", "single-survivor", "direct-diffuse", "direct-target", "target-column", "threshold-ladder", "history", "rethrow", "permutation", "side-by-side", "fullrun-keywords", "fullrun-column"):
        ctx.require(m)
    if ctx.obs.get("target_bright_instants_seen", 0) == 0 or ctx.obs.get("target_dark_instants_seen", 0) == 0:
        ctx.inconclusive_because("the dark-sky mask never took both values on the kept instants")
    return ctx.finish(
        rule="direct: real throw() then the real mcintegral with generated arrays (triggers incl. exactly the threshold and one ulp below, effective cosines incl. +-1, 0, exactly the event's own cos(view angle) and one ulp outside, exit probabilities in (0,1], decay lengths incl. 0, exactly the path length and beyond it), both classes, both methods, scalar and per-event cones, dark-sky cut on/off; full: monitored compute() runs (both modes, both channels, mono/power-law, cloud variants) whose header keywords and per-event columns are recomputed from the final table; a case is a distinct event row of a direct call or a (run, method)",
        assumptions=["Earth radius = astropy R_earth", "the SNR is observed at the calculate_snr probe (it is not stored in the table)", "the dark-sky mask itself is taken from the real sun_moon_cut (its correctness is C13's subject); this check decides where it is applied", "target mode: an effective cosine of exactly -1 is not generated (tan(pi) rounding, see source)", "sums agree to 1e-9 relative plus the stated per-event conditioning allowance (near-horizon cancellation in cos(theta_NV), small-angle sin(beta))"],
    )
