"""C08 — optical signal chain: inverse-square, linearity, range cut, effective cone.

Probes on the real ``CphotAng.__call__`` / ``CphotAng.run`` (class attributes, no source
edit) record what ``EAS.__call__`` hands to the kernel and what comes back.

  wiring      the kernel batch receives exactly the in-range events' (beta, altitude, energy,
              lat, long), in order, and nothing else
  pe          numPEs == photon density (as returned by the kernel) x area x efficiency
  range-cut   decays outside [0, 20] km: exactly 0 PEs and cos(1.5 deg), never simulated
              (no kernel call sees such an altitude); 0 and 20 exactly are simulated
  eff-angle   costhetaChEff == cos(theta x sqrt(2 ln(PE/thr))) if PE/thr > 2 else cos(theta),
              incl. ratios exactly 2 and one ulp either side; never below the intrinsic angle;
              non-increasing in the threshold
  inv-square  CphotAng(h).run density == CphotAng(525).run density x (d_525/d_h)^2 with
              distances from straight-line geometry; Cherenkov angle bit-identical
"""
import math

import numpy as np

from .. import core, inject

LEVEL = "exploration"
RADE = 6378.14
B42 = math.radians(42.0)


def path_to_altitude(z, beta, R=RADE):
    """Length along a straight line leaving the surface at elevation beta up to altitude z."""
    return math.sqrt((R + z) ** 2 - (R * math.cos(beta)) ** 2) - R * math.sin(beta)


def run(ctx):
    import dask
    from nuspacesim.config import NssConfig
    from nuspacesim.simulation.eas_optical.cphotang import CphotAng
    from nuspacesim.simulation.eas_optical.eas import EAS

    inject.require_safe()
    rng = ctx.subrng("c08")
    log = {"batch": [], "run": []}
    o_call, o_run = CphotAng.__dict__["__call__"], CphotAng.__dict__["run"]

    # (signature-transparent probes: a change may add arguments to these internal entry points)
    def p_call(self, betaE, alt, E, lat, lon, *a, **k):
        r = o_call(self, betaE, alt, E, lat, lon, *a, **k)
        log["batch"].append({"in": [np.array(x, copy=True) for x in (betaE, alt, E, lat, lon)], "out": [np.array(x, copy=True) for x in r], "det": self.detector_altitude})
        return r

    def p_run(self, betaE, alt, E, *a, **k):
        log["run"].append((float(betaE), float(alt), float(E)))
        return o_run(self, betaE, alt, E, *a, **k)

    CphotAng.__call__ = p_call
    CphotAng.run = p_run
    try:
        import contextlib
        import io

        with dask.config.set(scheduler="synchronous"), contextlib.redirect_stdout(io.StringIO()):
            nev = ctx.pick(160, 1200)
            for det in ([33.0, 525.0, 1000.0] if not ctx.thorough() else [33.0, 100.0, 525.0, 1000.0, 36000.0]):
                for area, qe, thr in ((2.5, 0.2, 10.0), (1.0, 1.0, 3.0), (7.3, 0.05, 0.5)):
                    cfg = NssConfig()
                    cfg.detector.initial_position.altitude = det
                    cfg.detector.optical.telescope_effective_area = area
                    cfg.detector.optical.quantum_efficiency = qe
                    cfg.detector.optical.photo_electron_threshold = thr
                    cfg = core.validated(cfg, "C08 detector configuration")
                    n = nev // 3
                    beta = rng.uniform(0, B42, n)
                    beta[:3] = [0.0, B42, math.radians(0.5)]
                    alt = rng.uniform(0, 20, n)
                    hostile = [-1e-9, 0.0, 20.0, np.nextafter(20.0, 21), 20 + 1e-9, np.inf, -5.0, 1e3, np.nextafter(0.0, -1), -np.inf]
                    pos = rng.choice(n, len(hostile), replace=False)
                    alt[pos] = hostile
                    # out-of-range decays whose geometry is degenerate as well: below ground on a grazing
                    # track (the propagation angle is undefined there), at / above the detector
                    rest = np.setdiff1d(np.arange(3, n), pos)[:6]
                    alt[rest] = [-1.0, -5.0, -100.0, -0.1, float(det), float(det) + 1.0][: rest.size]
                    beta[rest] = np.radians([0.5, 1.0, 5.0, 0.0, 3.0, 10.0])[: rest.size]
                    E = 10 ** rng.uniform(-4, 3.5, n)
                    lat, lon = rng.uniform(-1.5, 1.5, n), rng.uniform(-3.1, 3.1, n)
                    inr = (alt >= 0) & (alt <= 20)
                    wit = {"det_alt": det, "area": area, "qe": qe, "threshold": thr, "events": n, "out_of_range": int((~inr).sum())}
                    args0 = [x.copy() for x in (beta, alt, E, lat, lon)]
                    log["batch"].clear()
                    log["run"].clear()
                    try:
                        numPEs, cosEff = EAS(cfg)(beta, alt, E, lat, lon)
                    except Exception as e:
                        ctx.exception("raises", f"EAS.__call__ raised on a batch with {wit['out_of_range']} out-of-range decays", e, wit)
                        continue
                    numPEs, cosEff = np.asarray(numPEs), np.asarray(cosEff)
                    for a, a0 in zip((beta, alt, E, lat, lon), args0):
                        if a.tobytes() != a0.tobytes():
                            ctx.violation("inputs-modified", "EAS.__call__ modified an input array", wit)
                    # ---- wiring
                    ctx.count("wiring", n)
                    if len(log["batch"]) != 1:
                        ctx.violation("wiring", f"the kernel batch call was made {len(log['batch'])} times for one EAS call", wit)
                        continue
                    b = log["batch"][0]
                    exp_in = [beta[inr], alt[inr], E[inr], lat[inr], lon[inr]]
                    names = ["beta", "altitude", "shower energy", "latitude", "longitude"]
                    for nm, got, want in zip(names, b["in"], exp_in):
                        if got.shape != want.shape or not np.array_equal(got, want):
                            ctx.violation("wiring", f"detector {det} km: the kernel received a {nm} array of {got.shape[0] if got.ndim else 0} values that is not the {int(inr.sum())} in-range events' {nm} in order", dict(wit, array=nm))
                            break
                    # ---- never simulated outside the range
                    ctx.count("range-cut", int((~inr).sum()))
                    seen_alts = np.array([r[1] for r in log["run"]])
                    if seen_alts.size and not np.all((seen_alts >= 0) & (seen_alts <= 20)):
                        ctx.violation("range-cut", f"a decay at altitude {seen_alts[~((seen_alts >= 0) & (seen_alts <= 20))][0]!r} km was handed to the shower kernel", wit)
                    if len(log["run"]) != int(inr.sum()):
                        ctx.violation("range-cut", f"{len(log['run'])} kernel evaluations for {int(inr.sum())} in-range events", wit)
                    c15 = math.cos(math.radians(1.5))
                    bad = (~inr) & ~((numPEs == 0.0) & (np.abs(cosEff - c15) <= 1e-15))
                    if bad.any():
                        i = int(np.flatnonzero(bad)[0])
                        ctx.violation("range-cut", f"decay at altitude {alt[i]!r} km gives numPEs={numPEs[i]!r}, costhetaChEff={cosEff[i]!r} (expected exactly 0 and cos 1.5 deg = {c15!r})", dict(wit, altitude=float(alt[i]) if np.isfinite(alt[i]) else repr(alt[i])))
                    # ---- PEs = density x area x efficiency
                    dph, cang = b["out"][0].astype(np.float64), b["out"][1].astype(np.float64)
                    if dph.shape != (int(inr.sum()),):
                        ctx.violation("wiring", "kernel output length differs from the number of in-range events", wit)
                        continue
                    ctx.count("pe", int(inr.sum()))
                    want = dph * area * qe
                    rel = np.abs(numPEs[inr] - want) / np.maximum(np.abs(want), 1e-300)
                    if not np.all((rel <= 1e-12) | (want == numPEs[inr])):
                        i = int(np.argmax(rel))
                        ctx.violation("pe", f"numPEs={numPEs[inr][i]!r} but density {dph[i]!r} x area {area} x efficiency {qe} = {want[i]!r}", wit)
                    # ---- effective angle
                    def eff_cos(pe, th, t):
                        r = pe / t
                        f = np.where(r > 2.0, np.sqrt(2.0 * np.log(np.where(r > 2.0, r, 3.0))), 1.0)
                        return np.cos(np.radians(th * np.maximum(f, 1.0)))

                    ctx.count("eff-angle", int(inr.sum()))
                    wc = eff_cos(numPEs[inr], cang, thr)
                    bad = ~(np.abs(cosEff[inr] - wc) <= 1e-12) | ~(cosEff[inr] <= np.cos(np.radians(cang)) + 1e-15)
                    if bad.any():
                        i = int(np.flatnonzero(bad)[0])
                        ctx.violation("eff-angle", f"PE/threshold={numPEs[inr][i]/thr!r}, intrinsic angle {cang[i]!r} deg: costhetaChEff={cosEff[inr][i]!r}, expected {wc[i]!r}", wit)
                    ctx.distinct.add_rows(np.full(n, det), beta, alt, E)
                    if len(ctx.samples) < 3:
                        i = int(np.flatnonzero(inr)[0])
                        ctx.sample({"det_alt": det, "beta": float(beta[i]), "altDec": float(alt[i]), "E_100PeV": float(E[i]), "numPEs": float(numPEs[i]), "costhetaChEff": float(cosEff[i]), "area": area, "qe": qe, "threshold": thr})
                    # ---- ratios exactly 2 and one ulp either side; threshold ladder
                    pos_pe = np.flatnonzero(inr & (numPEs > 0))
                    if pos_pe.size and area == 2.5:
                        ks = pos_pe[:: max(1, pos_pe.size // 6)][:6]
                        sub = [x[ks] for x in (beta, alt, E, lat, lon)]
                        idx_in = {int(k): j for j, k in enumerate(np.flatnonzero(inr))}
                        th_ks = np.array([cang[idx_in[int(k)]] for k in ks])
                        for anchor in ks[:3]:
                            half = numPEs[anchor] / 2.0  # exact in binary: ratio is exactly 2 at this threshold
                            ladder = [half * 0.25, half * 0.5, float(np.nextafter(half, 0)), half, float(np.nextafter(half, np.inf)), half * 1.3, half * 4.0]
                            prev = None
                            for t in ladder:
                                if not t > 0:
                                    continue
                                cfg.detector.optical.photo_electron_threshold = float(t)
                                pe2, ce2 = EAS(cfg)(*sub)
                                pe2, ce2 = np.asarray(pe2), np.asarray(ce2)
                                ctx.count("eff-angle-boundary", ks.size)
                                w = eff_cos(pe2, th_ks, float(t))
                                bad = ~((pe2 == numPEs[ks]) & (np.abs(ce2 - w) <= 1e-12))
                                if bad.any():
                                    i = int(np.flatnonzero(bad)[0])
                                    ctx.violation("eff-angle", f"PE={pe2[i]!r}, threshold={t!r} (ratio {pe2[i]/t!r}), intrinsic {th_ks[i]!r} deg: costhetaChEff={float(ce2[i])!r}, expected {float(w[i])!r}", dict(wit, ratio=float(pe2[i] / t)))
                                if prev is not None and np.any(ce2 < prev - 1e-15):
                                    ctx.violation("eff-angle", f"the effective angle grows when the threshold rises to {t!r}", wit)
                                prev = ce2
                        cfg.detector.optical.photo_electron_threshold = thr
            # ---------------- call history: one EAS object, same batch size, different patterns ------
            cfg = NssConfig()
            eas_obj = EAS(cfg)
            n = 24
            pats = [rng.uniform(0, 20, n) for _ in range(4)]
            pats[1][: n // 2] = 25.0
            pats[2][n // 2 :] = -1.0
            pats[3][::3] = np.inf
            be, en = rng.uniform(0, B42, n), 10 ** rng.uniform(-2, 3, n)
            la, lo = rng.uniform(-1, 1, n), rng.uniform(-3, 3, n)
            for hi_, alt_h in enumerate(pats + pats[:2]):
                got = eas_obj(be, alt_h, en, la, lo)
                ref = EAS(cfg)(be, alt_h, en, la, lo)
                ctx.count("history", n)
                if not (np.asarray(got[0]).tobytes() == np.asarray(ref[0]).tobytes() and np.asarray(got[1]).tobytes() == np.asarray(ref[1]).tobytes()):
                    d = np.flatnonzero((np.asarray(got[0]) != np.asarray(ref[0])) | (np.asarray(got[1]) != np.asarray(ref[1])))
                    i = int(d[0])
                    ctx.violation("history", f"call #{hi_ + 1} on one EAS object (same batch size, different decay altitudes) differs from a fresh object at event {i}: altDec={alt_h[i]!r} gives (PE {np.asarray(got[0])[i]!r}, cos {np.asarray(got[1])[i]!r}) instead of ({np.asarray(ref[0])[i]!r}, {np.asarray(ref[1])[i]!r})", {"call": hi_ + 1, "event": i})
                    break
            # ---------------- the same array objects, edited in place between consecutive calls (a caller's scan
            #                  loop): each call sees the numbers the arrays hold now (seeded C08-16: kernel
            #                  result cached on the object, keyed on the identity of the argument arrays)
            try:
                refs_ip = [EAS(cfg)(be.copy(), p_.copy(), en.copy(), la.copy(), lo.copy()) for p_ in pats]
                eas_ip = EAS(cfg)
                buf_alt, buf_en = pats[0].copy(), en.copy()
                for hi_, p_ in enumerate(pats):
                    buf_alt[:] = p_
                    got = eas_ip(be, buf_alt, buf_en, la, lo)
                    ctx.count("history", n)
                    if not (np.asarray(got[0]).tobytes() == np.asarray(refs_ip[hi_][0]).tobytes() and np.asarray(got[1]).tobytes() == np.asarray(refs_ip[hi_][1]).tobytes()):
                        i = int(np.flatnonzero((np.asarray(got[0]) != np.asarray(refs_ip[hi_][0])) | (np.asarray(got[1]) != np.asarray(refs_ip[hi_][1])))[0])
                        ctx.violation("history", f"call #{hi_ + 1} on one EAS object with the same argument arrays edited in place differs from a fresh object on fresh arrays at event {i}: altDec={buf_alt[i]!r} gives PE {np.asarray(got[0])[i]!r} instead of {np.asarray(refs_ip[hi_][0])[i]!r}", {"call": hi_ + 1, "event": i, "in_place": True})
                        break
            except Exception as e:
                ctx.exception("raises", "EAS.__call__ raised on argument arrays edited in place", e, {})
            # ---------------- whole-number emergence angles (an integer array of zeros): the results are those
            #                  of the same numbers as floats
            cfg_i = NssConfig()
            bi_ = np.array([0, 0, 0, 1, 1])
            ai_, ei_ = np.array([5.0, 10.0, 25.0, 8.0, -1.0]), np.ones(5)
            try:
                gi_ = [np.asarray(x, dtype=np.float64) for x in EAS(cfg_i)(bi_, ai_, ei_, np.zeros(5), np.zeros(5))]
                gf_ = [np.asarray(x, dtype=np.float64) for x in EAS(cfg_i)(bi_.astype(np.float64), ai_, ei_, np.zeros(5), np.zeros(5))]
                ctx.count("dtype", 5)
                if not all(np.all(np.abs(a_ - b_) <= 1e-6 * np.abs(b_) + 1e-12) for a_, b_ in zip(gi_, gf_)):
                    ctx.violation("pe", f"integer emergence angles {bi_.tolist()} give (numPEs, cos) = ({gi_[0].tolist()}, {gi_[1].tolist()}); the same numbers as floats give ({gf_[0].tolist()}, {gf_[1].tolist()})", {"dtype": "int64"})
            except Exception as e:
                ctx.exception("raises", "EAS.__call__ raised for an integer emergence-angle array", e, {"dtype": "int64"})
            # ---------------- configuration history: one configuration object scanned over area,
            #                  efficiency and threshold by attribute assignment and by model_copy, the
            #                  optical stage run after every edit (what a parameter scan in one session does)
            cfgs_ = NssConfig()
            nh = 12
            beh, alh, enh = rng.uniform(0.05, B42, nh), rng.uniform(0.5, 12, nh), 10 ** rng.uniform(0, 2.5, nh)
            lah, loh = np.zeros(nh), np.zeros(nh)
            cur_cfg = cfgs_
            steps_ = [("assign", 2.5, 0.2, 10.0), ("assign", 5.0, 0.2, 10.0), ("assign", 5.0, 0.4, 10.0), ("copy", 1.0, 1.0, 10.0), ("assign", 1.0, 1.0, 3.0), ("copy", 7.3, 0.05, 0.5), ("assign", 2.5, 0.2, 10.0)]
            for si_, (how, area_, qe_, thr_) in enumerate(steps_):
                if how == "assign":
                    cur_cfg.detector.optical.telescope_effective_area = area_
                    cur_cfg.detector.optical.quantum_efficiency = qe_
                    cur_cfg.detector.optical.photo_electron_threshold = thr_
                else:
                    cur_cfg = cur_cfg.model_copy(deep=True, update={"detector": cur_cfg.detector.model_copy(deep=True, update={"optical": cur_cfg.detector.optical.model_copy(update={"telescope_effective_area": area_, "quantum_efficiency": qe_, "photo_electron_threshold": thr_})})})
                log["batch"].clear()
                try:
                    pe_h, ce_h = (np.asarray(x) for x in EAS(cur_cfg)(beh, alh, enh, lah, loh))
                except Exception as e:
                    ctx.exception("raises", f"EAS.__call__ raised at step {si_} of a configuration scan", e, {"step": si_, "how": how})
                    break
                if len(log["batch"]) != 1:
                    break
                dph_h = log["batch"][0]["out"][0].astype(np.float64)
                cang_h = log["batch"][0]["out"][1].astype(np.float64)
                want_h = dph_h * area_ * qe_
                r_h = want_h / thr_
                f_h = np.where(r_h > 2.0, np.sqrt(2.0 * np.log(np.where(r_h > 2.0, r_h, 3.0))), 1.0)
                wc_h = np.cos(np.radians(cang_h * np.maximum(f_h, 1.0)))
                ctx.count("config-history", nh)
                ok_h = np.all((np.abs(pe_h - want_h) <= 1e-12 * np.abs(want_h)) | (pe_h == want_h)) and np.all(np.abs(ce_h - wc_h) <= 1e-12)
                if not ok_h:
                    i = int(np.argmax(np.abs(pe_h - want_h) / np.maximum(np.abs(want_h), 1e-300)))
                    ctx.violation("pe", f"step {si_} of a scan over one configuration object ({'attribute assignment' if how == 'assign' else 'model_copy(update=...)'}): area {area_} m^2, efficiency {qe_}, threshold {thr_}: numPEs={pe_h[i]!r} but density {dph_h[i]!r} x area x efficiency = {want_h[i]!r} (effective cosine {ce_h[i]!r}, expected {wc_h[i]!r})", {"step": si_, "how": how, "area": area_, "qe": qe_, "threshold": thr_})
                    break
            # ---------------- inverse square between detector altitudes -----------------------
            log["batch"].clear()
            k525 = CphotAng(525.0)
            dets = [33.0, 100.0, 1000.0, 36000.0, 21.0, 15.0, 5.0]  # incl. detectors below some of the decays
            ks = {h: CphotAng(h) for h in dets}
            m = ctx.pick(150, 1500)
            for i in range(m):
                b = float(rng.uniform(0, B42)) if i > 4 else [0.0, B42, math.radians(0.3), 0.2, 0.01][i]
                a = float(rng.uniform(0, 20)) if i > 4 else [0.0, 20.0, 19.999, 5.0, 10.0][i]
                e = float(10 ** rng.uniform(-3, 3))
                h = dets[i % len(dets)]
                if i % 9 == 8 and h <= 21.0:
                    # a decay 1 m .. 100 m below / above a detector that sits inside the decay range
                    a = min(20.0, max(0.0, h + float(rng.choice([-1.0, 1.0])) * float(10 ** rng.uniform(-3, -1))))
                try:
                    d0, c0 = o_run(k525, b, a, e, 0.0, 0.0)
                    d1, c1 = o_run(ks[h], b, a, e, 0.0, 0.0)
                except Exception as ex:
                    ctx.exception("inv-square", f"the kernel raised for a detector at {h} km (beta={math.degrees(b):.3f} deg, alt={a:.3f} km, E={e:.4g}); the 525 km value times the squared distance ratio is defined", ex, {"det": h, "beta": b, "alt": a, "E": e})
                    continue
                bc = max(b, math.radians(1.0))
                sa = path_to_altitude(a, bc)
                want = ((path_to_altitude(525.0, bc) - sa) / (path_to_altitude(h, bc) - sa)) ** 2
                if path_to_altitude(h, bc) == sa:
                    continue  # the decay is at the detector: the ratio the property names is itself infinite
                if h < 33.0 and abs(path_to_altitude(h, bc) - sa) < 1.0:
                    # decays within 1 km of a detector inside the decay range are judged like the others
                    # since D40 (before, the float32 law-of-sines distance lost all accuracy there)
                    ctx.obs["inv_square_decays_within_1km_of_low_detector"] = ctx.obs.get("inv_square_decays_within_1km_of_low_detector", 0) + 1
                ctx.count("inv-square")
                if float(d0) > 0:
                    r = float(d1) / float(d0)
                    # the kernel forms the distance from float32 angles (law of sines); for a detector
                    # inside the decay range the distance can be short and the small central angle is a
                    # difference of numbers near pi/2: relative error ~ eps32 (R + z) / d, twice that squared
                    tol_r = 1e-4
                    ctx.track_worst("inv_square_ratio_rel", abs(r / want - 1) / tol_r * 1e-3, 1e-3)
                    if not (abs(r / want - 1) <= tol_r and float(c1) == float(c0)):
                        ctx.violation("inv-square", f"detector {h} km vs 525 km at beta={math.degrees(b):.3f} deg, alt={a:.3f} km: density ratio {r!r}, squared distance ratio {want!r}; angles {float(c1)!r} vs {float(c0)!r}", {"det": h, "beta": b, "alt": a, "E": e})
                elif float(d1) != 0:
                    ctx.violation("inv-square", f"density is 0 at 525 km but {float(d1)!r} at {h} km", {"det": h, "beta": b, "alt": a, "E": e})
    finally:
        CphotAng.__call__ = o_call
        CphotAng.run = o_run
    for mname in ("dtype", "config-history", "wiring", "pe", "range-cut", "eff-angle", "eff-angle-boundary", "inv-square", "history"):
        ctx.require(mname)
    return ctx.finish(
        rule="batches through the real EAS.__call__ for detector altitudes {33, 525, 1000[, 100, 36000]} km (inverse-square clause also 21, 15, 5 km: detectors below some of the decays) x 3 (area, efficiency, threshold) settings: beta in [0, 42 deg], shower energies 1e-4..3e3 x 100 PeV, decay altitudes uniform in [0,20] km with 10 hostile values (-inf, -5, -1e-9, -5e-324, 0, 20, 20+ulp, 20+1e-9, 1e3, +inf) at random positions; thresholds placed so that PE/threshold is exactly 2 and one ulp either side; two-detector runs of the kernel for the inverse-square clause; a case is a distinct (detector, beta, altitude, energy)",
        assumptions=["kernel Earth radius 6378.14 km for the distance ratio", "squared-ratio tolerance 1e-3 (the property gives no figure; float32 evaluation of the viewing angle moves it by up to 1.5e-4)", "synchronous dask scheduler here; schedulers are C10's subject", "NaN decay altitudes are outside the domain"],
    )
