"""C02 — thrown trajectories are consistent 3-D objects for every random input.

The real ``RegionGeom.throw(u)`` is called on the *closed* unit cube (faces, edges,
vertices, denormal and 1-2^-53 neighbours, u4 ladders 1e-k / 1-1e-k) and on random
interior points, for detector positions incl. poles and the date line. Oracles use
explicit 3-D vectors (geom_ref):

  range        min <= l <= horizon distance; min and horizon from ray-sphere intersection
  inverse-cdf  |G(l) - (G(max) - u4 (G(max)-G(min)))| / (G(max)-G(min)) <= 1e-10, G = 3Kv - v^3,
               evaluated in 50-digit decimal on the boundary catalogue and a subsample, in
               double (with a conditioning allowance) elsewhere; l non-increasing in u4
  spot         |D - S| == l for S = R unit(latS, longS); lat in [-90,90], long in [0,360]
  emergence    reported angle == 90 deg - angle(trajectory, local vertical) from vectors
               (azimuth origin at +e1 or -e1 accepted here; pinned by 'along')
  mask         kept  <=>  upward and emergence < 42 deg (1e-9 rad guard band)
  along        find_lat_long_along_traj(s): ground offset == atan2(s cos b, R + s sin b)
  call         RegionGeom.__call__ returns exactly the kept events' angles and lengths
"""
import decimal

import math

import numpy as np

from .. import core
from ..oracles import geom_ref as G

LEVEL = "exploration"
D = decimal.Decimal
# the property gives no figure for "exact"; the cubic is solved trigonometrically (arccos near -1 for
# narrow annuli: tens of ulps of l), observed worst 3.3e-12 of the CDF range -> 1e-10 is used
CDF_TOL = 1e-10
HOST = np.array([0.0, 5e-324, 1e-300, 2.0**-53, 1e-17, 1e-16, 1e-15, 1e-14, 1e-13, 1e-12, 1e-11, 1e-10, 1e-9, 1e-8, 1 - 1e-8, 1 - 1e-9, 1 - 1e-10, 1 - 1e-11, 1 - 1e-12, 1 - 1e-13, 1 - 1e-14, 1 - 1e-15, 1 - 1e-16, 1 - 2.0**-53, 1.0])


def catalogue(rng, nint):
    """Closed-cube boundary catalogue followed by nint interior points. Returns (u, is_boundary)."""
    pts = []
    tri = [0.0, None, 1.0]
    for rep in range(12):
        for a in tri:
            for b in tri:
                for c in tri:
                    for d in tri:
                        pts.append([x if x is not None else rng.uniform(0, 1) for x in (a, b, c, d)])
    for coord in range(4):
        for h in HOST:
            for rep in range(8):
                p = list(rng.uniform(0, 1, 4))
                p[coord] = h
                pts.append(p)
    for h4 in HOST:  # u4 face combined with u1 faces (horizon x cone edge)
        for h1 in (0.0, 1.0, 0.5):
            pts.append([h1, rng.uniform(0, 1), rng.uniform(0, 1), h4])
    b = np.array(pts).T
    inner = rng.uniform(0, 1, (4, nint))
    return np.concatenate([b, inner], axis=1), np.concatenate([np.ones(b.shape[1], bool), np.zeros(nint, bool)])


def make_cfg(alt, lat, lon, limb_frac=None, cone=None, az=None):
    from nuspacesim.config import NssConfig

    c = NssConfig()
    c.detector.initial_position.altitude = float(alt)
    c.detector.initial_position.latitude = float(lat)
    c.detector.initial_position.longitude = float(lon)
    aH = G.horizon_nadir_angle(G.R_ASTROPY, alt)
    if limb_frac is not None:
        c.simulation.angle_from_limb = float(limb_frac * aH)
    if cone is not None:
        c.simulation.max_cherenkov_angle = float(cone)
    if az is not None:
        c.simulation.max_azimuth_angle = float(az)
    return core.validated(c, "C02 geometry configuration")


def positions(ctx, rng, n):
    alts = [1.0, 5.0, 33.0, 525.0, 1000.0, 36000.0]
    out = []
    for i in range(n):
        alt = alts[i % len(alts)] if i < 2 * len(alts) else float(np.exp(rng.uniform(0, np.log(4e4))))
        aH = G.horizon_nadir_angle(G.R_ASTROPY, alt)
        thS = 0.5 * np.pi - aH  # Earth-central angle of the horizon
        lat = [0.0, 0.5 * np.pi, -0.5 * np.pi, 0.5 * np.pi - 0.5 * thS, -(0.5 * np.pi - 0.5 * thS), float(rng.uniform(-1.5, 1.5))][i % 6]
        lon = [0.0, np.pi, -np.pi, 2 * np.pi, float(rng.uniform(-np.pi, 2 * np.pi)), 1.0][(i // 2) % 6]
        limb = [None, 1e-3, 0.1, 0.5, 0.9, 0.999][(i // 3) % 6]
        if limb is None and np.radians(7) >= aH:
            limb = 0.5
        cone = [None, np.radians(0.1), np.radians(20), np.radians(60), np.radians(89), np.radians(0.5)][(i // 5) % 6]
        az = [None, np.radians(1), np.radians(90), None][(i // 7) % 4]
        out.append((alt, lat, lon, limb, cone, az))
    return out


def judge(ctx, g, cfgt, u, isb, rng):
    """All per-event monitors for one throw."""
    alt, lat, lon = cfgt[:3]
    R = G.R_ASTROPY
    wit = {"altitude": float(alt), "lat": float(lat), "lon": float(lon), "limb_frac": cfgt[3], "cone": cfgt[4], "az": cfgt[5]}
    n = u.shape[1]
    l = np.asarray(g.losPathLen, dtype=np.float64)

    def w(i):
        return dict(wit, event=int(i), u=[float(x).hex() for x in u[:, i]])

    nf_all = np.minimum(u[3], 1 - u[3]) < 1e-12

    class _NF:
        """mechanism key: 'throw:u4-near-face' only when *every* failing event sits on a u4 face"""

        cur = None

        def __call__(self, i):
            return bool(self.cur is not None and self.cur.any() and nf_all[self.cur].all())

    near_face = _NF()

    # ---- region constants against ray-sphere intersection
    aH = G.horizon_nadir_angle(R, alt)
    amin = aH - g.config.simulation.angle_from_limb
    lmax_ref = G.tangent_length(R, alt)
    lmin_ref = G.los_length_at_nadir(R, alt, amin)
    ctx.count("range-constants", 2)
    if not (abs(g.maxLOSpathLen - lmax_ref) <= 1e-9 * lmax_ref and abs(g.minLOSpathLen - lmin_ref) <= 1e-8 * lmin_ref + 1e-9):
        ctx.violation("range", f"altitude {alt} km: [min, horizon] = [{g.minLOSpathLen!r}, {g.maxLOSpathLen!r}] km, ray-sphere intersection gives [{lmin_ref!r}, {lmax_ref!r}]", wit)
    lmin, lmax = float(g.minLOSpathLen), float(g.maxLOSpathLen)
    # ---- range
    ctx.count("range", n)
    bad = ~((l >= lmin * (1 - 1e-12)) & (l <= lmax * (1 + 1e-12)))
    near_face.cur = bad
    if bad.any():
        i = int(np.flatnonzero(bad)[0])
        ctx.violation("throw:u4-near-face" if near_face(i) else "range", f"altitude {alt} km: line-of-sight length {l[i]!r} km outside [{lmin!r}, {lmax!r}] at u={u[:, i].tolist()} ({int(bad.sum())} events)", w(i))
    # ---- inverse CDF
    K = lmax * lmax
    Gf = lambda v: 3 * K * v - v**3
    dG = Gf(lmax) - Gf(lmin)
    res = np.abs(Gf(l) - (Gf(lmax) - u[3] * dG)) / dG
    # the solver's own rounding (a trigonometric root: ~10 ulps of l) limits how exact the image can be
    allow = CDF_TOL + 4e-16 * Gf(lmax) / dG + 32 * np.abs(3 * K - 3 * l * l) * np.spacing(np.abs(l)) / dG
    ctx.count("inverse-cdf", n)
    ctx.track_worst("inverse_cdf_residual_double_over_tol", float(np.nanmax(res / allow)), 1.0)
    badf = ~(res <= allow)
    sub = np.flatnonzero(isb)
    extra = rng.choice(np.flatnonzero(~isb), min(int((~isb).sum()), 1500), replace=False) if (~isb).any() else np.zeros(0, int)
    exact_idx = np.unique(np.concatenate([sub, extra, np.flatnonzero(badf)[:50]]))
    with decimal.localcontext() as dc:
        dc.prec = 50
        Kd = D(lmax) * D(lmax)
        Gd = lambda v: 3 * Kd * v - v * v * v
        gmax, gmin = Gd(D(lmax)), Gd(D(lmin))
        dGd = gmax - gmin
        worst = 0.0
        for i in exact_idx:
            li = float(l[i])
            if not np.isfinite(li):
                continue
            r = abs(Gd(D(li)) - (gmax - D(float(u[3, i])) * dGd)) / dGd
            # the returned double can only be as exact as one ulp of l allows
            ulp_allow = abs(3 * Kd - 3 * D(li) * D(li)) * D(float(np.spacing(li))) / dGd
            tol = D(CDF_TOL) + 32 * ulp_allow
            worst = max(worst, float(r / tol))
            ctx.count("inverse-cdf-decimal")
            if r > tol:
                near_face.cur = np.arange(n) == i
                ctx.violation("throw:u4-near-face" if near_face(i) else "inverse-cdf", f"altitude {alt} km: l={li!r} km is not the inverse-CDF image of u4={u[3, i]!r} (decimal residual {float(r):.3e} of the CDF range)", w(i))
                break
        ctx.track_worst("inverse_cdf_residual_decimal_over_tol", worst, 1.0)
    # monotone in u4
    o = np.argsort(u[3], kind="stable")
    ctx.count("monotone", n - 1)
    dl = np.diff(l[o])
    if np.any(dl > 1e-9 * lmax):
        j = int(np.flatnonzero(dl > 1e-9 * lmax)[0])
        i = int(o[j + 1])
        near_face.cur = np.zeros(n, bool)
        near_face.cur[o[1:][dl > 1e-9 * lmax]] = True
        ctx.violation("throw:u4-near-face" if near_face(i) else "inverse-cdf", f"altitude {alt} km: l rises from {l[o][j]!r} to {l[o][j+1]!r} as u4 rises from {u[3][o][j]!r} to {u[3][o][j+1]!r}", w(i))
    # ---- ground spot
    latS, lonS = np.asarray(g.latS), np.asarray(g.longS)
    ctx.count("spot", n)
    bad = ~(np.isfinite(latS) & np.isfinite(lonS) & (latS >= -90) & (latS <= 90) & (lonS >= 0) & (lonS <= 360))
    near_face.cur = bad
    if bad.any():
        i = int(np.flatnonzero(bad)[0])
        ctx.violation("throw:u4-near-face" if near_face(i) else "spot", f"altitude {alt} km: ground spot latitude/longitude = ({latS[i]!r}, {lonS[i]!r}) deg at u={u[:, i].tolist()}", w(i))
    Dv = G.detector_vector(R, alt, lat, lon)
    Sv = R * G.unit_from_latlon(np.radians(latS), np.radians(lonS))
    dist = G.norm(Dv[None, :] - Sv)
    err = np.abs(dist - l)
    # arcsin-latitude conditioning of the reported spot near the poles: eps / cos(lat) radians,
    # i.e. up to R eps / cos(lat) km of position
    spot_err_km = R * 8e-16 / np.maximum(np.cos(np.radians(np.clip(latS, -90, 90))), 1e-12)
    tol = 1e-9 + 1e-12 * l + 4e-16 * (R + alt) * R / np.maximum(l, 1e-300) + spot_err_km
    ctx.track_worst("spot_distance_err_over_tol", float(np.nanmax(err / tol)), 1.0)
    bad = ~(err <= tol) & ~bad
    near_face.cur = bad
    if bad.any():
        i = int(np.flatnonzero(bad)[0])
        ctx.violation("throw:u4-near-face" if near_face(i) else "spot", f"altitude {alt} km, detector (lat {lat}, lon {lon}): ground spot ({latS[i]!r}, {lonS[i]!r}) deg is {dist[i]!r} km from the detector, reported length {l[i]!r} km", w(i))
    # ---- emergence angle from explicit vectors
    th, ph = np.asarray(g.thetaTrSubV), np.asarray(g.phiTrSubV)
    beta_rep = np.radians(np.asarray(g.betaTrSubN))
    bp, nvec, traj, _ = G.emergence_from_vectors(Dv[None, :], Sv, th, ph, +1.0)
    bm, _, _, _ = G.emergence_from_vectors(Dv[None, :], Sv, th, ph, -1.0)
    # conditioning of the code's arccos: error ~ eps / sin(zenith); and of the spot (deg->rad)
    zen = 0.5 * np.pi - bp
    # the spot's Earth-central angle from the sub-detector point comes from an arccos of a number
    # close to 1 for near-nadir spots: eps / sin(theta_S) radians, i.e. R eps / sin(theta_S) km of
    # horizontal displacement, which tilts the line of sight by that over l
    thS_ref = G.angle_between(np.broadcast_to(Dv, Sv.shape), Sv)
    nadir_err_km = R * 4e-16 / np.maximum(np.sin(thS_ref), 1e-12)
    tolb = 1e-9 + 1e-15 / np.maximum(np.abs(np.sin(zen)), 1e-8) + 4e-16 * (R + alt) / np.maximum(l, 1e-300) + (spot_err_km + nadir_err_km) / np.maximum(l, 1e-300)
    # line of sight within 1e-6 rad of the local vertical at the spot (whole-disc annuli at u4 = 1): the
    # azimuth origin around it is undefined (the frame comes from a cross product of parallel
    # vectors), but the angle between trajectory and vertical is then theta_Tr to within that tilt
    tilt = G.angle_between(np.broadcast_to(Dv, Sv.shape) - Sv, Sv)
    degen = tilt < 1e-6
    if degen.any():
        bp = np.where(degen, 0.5 * np.pi - th, bp)
        bm = np.where(degen, 0.5 * np.pi - th, bm)
        tolb = tolb + np.where(degen, tilt + nadir_err_km / np.maximum(l, 1e-300) + 1e-9, 0.0)
        ctx.obs["events_with_line_of_sight_at_nadir"] = ctx.obs.get("events_with_line_of_sight_at_nadir", 0) + int(degen.sum())
    ep, em = np.abs(beta_rep - bp), np.abs(beta_rep - bm)
    okp, okm = ep <= tolb, em <= tolb
    ctx.count("emergence", n)
    conv = "+e1" if okp.mean() >= okm.mean() else "-e1"
    ok = okp if conv == "+e1" else okm
    ctx.track_worst("emergence_err_rad", float(np.nanmax(np.where(ok, np.minimum(ep, em), 0))), 1e-9)
    ctx.obs.setdefault("azimuth_origin_convention_seen", conv)
    bad = ~ok
    near_face.cur = bad
    if bad.any():
        i = int(np.flatnonzero(bad)[0])
        ctx.violation("throw:u4-near-face" if near_face(i) else "emergence", f"altitude {alt} km: reported emergence angle {np.degrees(beta_rep[i])!r} deg, explicit vectors give {np.degrees(bp[i])!r} deg (or {np.degrees(bm[i])!r} with the opposite azimuth origin) at u={u[:, i].tolist()} ({int(bad.sum())} events)", w(i))
    # ---- event mask
    bref = bp if conv == "+e1" else bm
    kept = np.asarray(g.event_mask, dtype=bool)
    want = (bref >= 0) & (bref < np.radians(42.0))
    guard = (np.abs(bref) < 1e-9 + tolb) | (np.abs(bref - np.radians(42.0)) < 1e-9 + tolb)
    ctx.count("mask", int((~guard).sum()))
    bad = (kept != want) & ~guard & ok
    if bad.any():
        i = int(np.flatnonzero(bad)[0])
        ctx.violation("mask", f"altitude {alt} km: event with emergence angle {np.degrees(bref[i])!r} deg is {'kept' if kept[i] else 'dropped'} ({int(bad.sum())} events)", w(i))
    ctx.obs["kept_events_seen"] = ctx.obs.get("kept_events_seen", 0) + int(kept.sum())
    ctx.obs["events_in_42deg_guard_band"] = ctx.obs.get("events_in_42deg_guard_band", 0) + int(guard.sum())
    along(ctx, g, cfgt, wit)
    ctx.distinct.add_rows(np.full(n, alt), np.full(n, lat), np.full(n, lon), u[0], u[1], u[2], u[3])


def along(ctx, g, cfgt, wit, tag=""):
    """Positions along kept trajectories of the object's *current* throw."""
    alt, lat, lon = cfgt[:3]
    R = G.R_ASTROPY
    kept = np.asarray(g.event_mask, dtype=bool)
    l = np.asarray(g.losPathLen, dtype=np.float64)
    latS = np.asarray(g.latS)
    Sv = R * G.unit_from_latlon(np.radians(latS), np.radians(np.asarray(g.longS)))
    if kept.any():
        b = np.radians(np.asarray(g.betaTrSubN))[kept]
        Sk = Sv[kept] / R
        for s in (0.0, 1e-3, 1.0, 100.0, 1e4):
            try:
                la, lo = g.find_lat_long_along_traj(np.full(b.shape, s))
            except Exception as e:
                ctx.exception("along-traj:raises", f"find_lat_long_along_traj({s}) raised{tag}", e, wit)
                break
            P = G.unit_from_latlon(np.asarray(la), np.asarray(lo))
            off = G.angle_between(Sk, P)
            exp = G.ground_offset(R, s, b)
            e = np.abs(off - exp)
            # arcsin-latitude conditioning at the poles: eps / cos(lat) for the returned point and the spot
            tol2 = 1e-12 + 1e-9 * exp + 4e-16 * (R + alt) / np.maximum(l[kept], 1e-300) + 4e-16 / np.maximum(np.cos(np.asarray(la)), 1e-12) + 4e-16 / np.maximum(np.cos(np.radians(latS[kept])), 1e-12)
            ctx.count("along", b.size)
            ctx.track_worst("along_offset_err_over_tol", float(np.nanmax(e / tol2)), 1.0)
            bad = ~(e <= tol2)
            if bad.any():
                i = int(np.flatnonzero(bad)[0])
                ctx.violation("along-traj:s>0" if s > 0 else "along-traj:s=0", f"altitude {alt} km{tag}: position at s={s} km along a kept trajectory (emergence {np.degrees(b[i])!r} deg) has ground offset {off[i]!r} rad from the exit point, expected atan2(s cos b, R + s sin b) = {exp[i]!r} ({int(bad.sum())} events)", dict(wit, s=s, event=int(np.flatnonzero(kept)[i])))
                break


def shard(ctx, si, payload):
    from nuspacesim.simulation.geometry.region_geometry import RegionGeom

    nint = payload["nint"]
    for k, cfgt in enumerate(payload["cfgs"]):
        rng = ctx.subrng("c02", si, k)
        cfg = make_cfg(*cfgt)
        try:
            g = RegionGeom(cfg)
        except Exception as e:
            ctx.exception("raises", f"RegionGeom construction raised for {cfgt}", e, {"cfg": cfgt})
            continue
        u, isb = catalogue(rng, nint)
        u0 = u.copy()
        try:
            g.throw(u)
        except Exception as e:
            ctx.exception("raises", f"throw(u) raised on the closed cube (altitude {cfgt[0]})", e, {"cfg": cfgt})
            continue
        if u.tobytes() != u0.tobytes():
            ctx.violation("inputs-modified", "throw(u) modified the random numbers it was given", {"cfg": cfgt})
        judge(ctx, g, cfgt, u, isb, rng)
        if si == 0 and k == 0:
            for i in (0, 500, u.shape[1] - 1):
                ctx.sample({"altitude_km": cfgt[0], "u": u[:, i].tolist(), "losPathLen": float(g.losPathLen[i]), "latS": float(g.latS[i]), "longS": float(g.longS[i]), "beta_deg": float(g.betaTrSubN[i]), "kept": bool(g.event_mask[i])})
        # ---- history: the same random numbers thrown on an object that has already thrown as many
        #      interior trajectories must give bit for bit what the fresh object gave
        snap = {a: np.array(v, copy=True) for a, v in vars(g).items() if isinstance(v, np.ndarray)}
        try:
            gh = RegionGeom(cfg)
            gh.throw(rng.uniform(0.05, 0.95, u.shape))
            gh.throw(u0.copy())
            ctx.count("history", u.shape[1])
            for a, v in snap.items():
                w_ = getattr(gh, a, None)
                if not (isinstance(w_, np.ndarray) and w_.shape == v.shape and w_.tobytes() == v.tobytes()):
                    d = np.flatnonzero(~((np.asarray(w_) == v) | (np.isnan(np.asarray(w_, dtype=float)) & np.isnan(v.astype(float))))) if isinstance(w_, np.ndarray) and w_.shape == v.shape else np.zeros(1, int)
                    i = int(d[0]) if d.size else 0
                    ctx.violation("history", f"altitude {cfgt[0]} km: after an earlier throw of the same size, throw(u) leaves {a}[{i}] = {np.asarray(w_).ravel()[i] if isinstance(w_, np.ndarray) and w_.size > i else w_!r} for u = {u0[:, i].tolist()}; a fresh object gives {v.ravel()[i]!r} ({d.size} of {v.size} entries differ)", {"cfg": cfgt, "attribute": a, "event": i, "u": [float(x).hex() for x in u0[:, i]], "sequence": "throw(interior, N); throw(u, N)"})
                    break
        except Exception as e:
            ctx.exception("raises", "second throw of the same size on one object raised", e, {"cfg": cfgt})
        # ---- a second throw on the same object, then positions again (no state may survive a throw)
        try:
            u2 = rng.uniform(0, 1, (4, int(rng.choice([1, 7, 3000]))))
            g.throw(u2)
            ctx.count("along-after-rethrow")
            along(ctx, g, cfgt, {"altitude": float(cfgt[0]), "lat": float(cfgt[1]), "lon": float(cfgt[2]), "sequence": "throw(u); positions; throw(u2); positions"}, tag=" [second throw on the same object]")
        except Exception as e:
            ctx.exception("raises", "second throw on the same object raised", e, {"cfg": cfgt})
        # ---- __call__ returns exactly the kept events
        np.random.seed(int(rng.integers(2**31)))
        try:
            b, t, pl = g(int(rng.choice([1, 2, 1000])))
            m = np.asarray(g.event_mask, bool)
            ctx.count("call")
            ok = np.array_equal(b, np.radians(g.betaTrSubN[m])) and np.array_equal(t, g.thetaTrSubV[m]) and np.array_equal(pl, g.losPathLen[m])
            ok = ok and np.all((pl >= g.minLOSpathLen) & (pl <= g.maxLOSpathLen)) and np.all((b >= 0) & (b < np.radians(42)))
            if not ok:
                ctx.violation("call", f"RegionGeom.__call__ (altitude {cfgt[0]}) does not return exactly the kept events' (beta, theta, path length)", {"cfg": cfgt})
        except Exception as e:
            ctx.exception("raises", "RegionGeom.__call__ raised", e, {"cfg": cfgt})
        # ---- the diagnostic plot is an observer of __call__
        if k == 0:
            from .. import plotobs

            plotobs.check_stage(ctx, f"RegionGeom.__call__ (altitude {cfgt[0]})", lambda: RegionGeom(cfg), lambda o, kw: o(500, **kw), (), "call", seed=int(rng.integers(2**31)))


def special_points(ctx):
    """Points where a sine or cosine of the construction is exactly +-1 (ground spot on a pole, vertical
    trajectory, line of sight at the nadir): every reported angle stays a number and the event is judged
    like any other."""
    from nuspacesim.simulation.geometry.region_geometry import RegionGeom

    cases = [
        ((525.0, 1.2759370780197172, 0.4, None, None, None), (0.3, 0.2, 0.75, 0.2260853441061499)),
        ((525.0, 1.2539805368198058, 0.0, None, None, None), (0.3, 0.2, 0.75, 0.13868274360016863)),
        ((525.0, -1.2759370780197172, 0.4, None, None, None), (0.3, 0.2, 0.25, 0.2260853441061499)),
        ((2000.0, 1.041203135072107, 0.0, None, None, None), (0.3, 0.2, 0.75, 0.2797369897307874)),
        ((36000.0, 0.22491449666444696, 0.0, None, None, None), (0.3, 0.2, 0.75, 0.006886134237440444)),
        ((525.0, 0.3, 1.0, None, math.pi / 2, None), (0.9724323656349586, 0.5, 0.1, 0.41354970867494234)),
        ((36000.0, 0.3, 1.0, None, math.radians(20.0), None), (0.5751032718462002, 0.5, 0.1, 0.9715736877635391)),
    ]
    for cfgt, u in cases:
        g = RegionGeom(make_cfg(*cfgt))
        # the witness and its floating-point neighbours in u4
        u4 = u[3]
        for k in range(-3, 4):
            v = u4
            for _ in range(abs(k)):
                v = float(np.nextafter(v, 2.0 if k > 0 else -1.0))
            uu = np.array([[u[0]], [u[1]], [u[2]], [v]])
            g.throw(uu)
            ctx.count("special-points")
            vals = {"latS": g.latS[0], "longS": g.longS[0], "betaTrSubN": g.betaTrSubN[0], "thetaS": g.thetaS[0], "losPathLen": g.losPathLen[0]}
            bad = [n_ for n_, x_ in vals.items() if not np.isfinite(x_)]
            if not bad and bool(g.event_mask[0]):
                la, lo = g.find_lat_long_along_traj(np.array([10.0]))
                if not (np.isfinite(la[0]) and np.isfinite(lo[0])):
                    bad.append("position at 10 km along the trajectory")
            if bad:
                ctx.violation("special-point", f"altitude {cfgt[0]} km, detector latitude {cfgt[1]!r} rad, cone {cfgt[4]}: u = {[u[0], u[1], u[2], v]} gives non-finite {bad} (event kept: {bool(g.event_mask[0])}; lat {vals['latS']!r}, beta {vals['betaTrSubN']!r})", {"cfg": cfgt, "u": [float(x).hex() for x in (u[0], u[1], u[2], v)]})
                break


def whole_disc(ctx):
    """Annuli that reach the sub-detector point (angle from the limb just below the horizon's nadir
    angle): at u4 = 1 the line of sight is the nadir, every cosine of the construction is exactly 1
    and rounds above it for some altitudes. Judged by all the monitors of an ordinary throw."""
    from nuspacesim.simulation.geometry.region_geometry import RegionGeom

    rng = ctx.subrng("c02-disc")
    alts = list(range(1, 201)) if ctx.thorough() else list(range(1, 201, 5)) + [3, 8, 13, 23, 33, 38, 48, 53, 58, 68, 73, 78]
    for alt in alts:
        for frac in (1 - 1e-9, 1 - 1e-12):
            cfgt = (float(alt), 0.3, 1.0, frac, math.radians(80.0), None)
            try:
                g = RegionGeom(make_cfg(*cfgt))
                one = float(np.nextafter(1.0, 0.0))
                u = np.array([[0.9, 0.9, 0.5, 0.2, 0.9, 0.05], [0.6, 0.6, 0.1, 0.9, 0.25, 0.5], [0.5, 0.5, 0.9, 0.3, 0.75, 0.0], [1.0, one, 1.0, one, 1 - 1e-12, 1.0]])
                g.throw(u.copy())
            except Exception as e:
                ctx.exception("raises", f"whole-disc annulus (altitude {alt} km, angle from limb {frac!r} x horizon angle): construction / throw raised", e, {"cfg": cfgt})
                continue
            ctx.count("whole-disc", u.shape[1])
            judge(ctx, g, cfgt, u, np.ones(u.shape[1], bool), rng)


def u_dtypes(ctx):
    """The same random numbers (exactly representable) as single / half precision arrays: every reported
    quantity equals what the float64 array gives. The configuration is built from plain Python numbers
    (what a TOML file gives), so no numpy scalar in it lifts the arithmetic."""
    from nuspacesim.simulation.geometry.region_geometry import RegionGeom

    rng = ctx.subrng("c02-dtype")
    for cfgt in ((525.0, 0.3, 1.0, None, math.radians(3.0), 2 * math.pi), (33.0, -0.7, 4.0, 0.5, math.radians(20.0), math.radians(90.0))):
        for dt in (np.float16, np.float32):
            u = rng.uniform(0.02, 0.98, (4, 400)).astype(dt)
            try:
                g1, g2 = RegionGeom(make_cfg(*cfgt)), RegionGeom(make_cfg(*cfgt))
                g1.throw(u.copy())
                g2.throw(u.astype(np.float64))
            except Exception as e:
                ctx.exception("raises", f"throw(u) with a {np.dtype(dt).name} array raised", e, {"cfg": cfgt})
                continue
            ctx.count("u-dtype", u.shape[1])
            for a in ("losPathLen", "latS", "longS", "betaTrSubN", "thetaTrSubV"):
                x, y = np.asarray(getattr(g1, a), dtype=np.float64), np.asarray(getattr(g2, a), dtype=np.float64)
                if not (x.shape == y.shape and np.all(np.abs(x - y) <= 1e-9 * (1 + np.abs(y)))):
                    i = int(np.argmax(np.abs(x - y))) if x.shape == y.shape else 0
                    ctx.violation("u-dtype", f"altitude {cfgt[0]} km: throw(u) with a {np.dtype(dt).name} array gives {a}[{i}] = {x[i]!r}; the same numbers as float64 give {y[i]!r} (u = {u[:, i].astype(np.float64).tolist()})", {"cfg": cfgt, "dtype": np.dtype(dt).name, "attribute": a})
                    break
            if not np.array_equal(np.asarray(g1.event_mask), np.asarray(g2.event_mask)):
                ctx.violation("u-dtype", f"altitude {cfgt[0]} km: throw(u) with a {np.dtype(dt).name} array keeps different events than the same numbers as float64", {"cfg": cfgt, "dtype": np.dtype(dt).name})


def side_by_side(ctx, si, payload):
    """Several geometry objects alive at once (built first, thrown afterwards, as a side-by-side
    comparison of detector altitudes or limb angles does): each gives, bit for bit, what an object
    built and thrown on its own gives."""
    from nuspacesim.simulation.geometry.region_geometry import RegionGeom

    rng = ctx.subrng("c02-side", si)
    cfgts = list(payload["cfgs"])
    cfgts.append((cfgts[0][0] * 1.7 + 3.0,) + tuple(cfgts[0][1:3]) + (0.3, None, None))
    objs = [(c_, RegionGeom(make_cfg(*c_))) for c_ in cfgts]
    # ---- all objects thrown first, positions asked afterwards, interleaved: each object reports the
    #      positions of its own kept trajectories
    us_ = [rng.uniform(0.02, 0.98, (4, 1500)) for _ in objs]
    try:
        for (c_, g_), u_ in zip(objs, us_):
            g_.throw(u_.copy())
        for s_km in (0.0, 50.0):
            for (c_, g_), u_ in zip(objs, us_):
                nk_ = int(np.sum(g_.event_mask))
                got = g_.find_lat_long_along_traj(np.full(nk_, s_km))
                g_ref = RegionGeom(make_cfg(*c_))
                g_ref.throw(u_.copy())
                want = g_ref.find_lat_long_along_traj(np.full(nk_, s_km))
                ctx.count("side-by-side", nk_)
                if not all(np.asarray(a).shape == np.asarray(b).shape and np.asarray(a).tobytes() == np.asarray(b).tobytes() for a, b in zip(got, want)):
                    ctx.violation("along-traj:interleaved", f"altitude {c_[0]} km: with {len(objs)} geometry objects thrown first and asked for positions afterwards, the position at s={s_km} km of kept trajectory 0 is (lat, lon) = ({np.asarray(got[0])[0] if nk_ else None!r}, {np.asarray(got[1])[0] if nk_ else None!r}) rad; an object used on its own gives ({np.asarray(want[0])[0] if nk_ else None!r}, {np.asarray(want[1])[0] if nk_ else None!r})", {"cfg": c_, "s": s_km, "objects_alive": len(objs)})
                    break
    except Exception as e:
        ctx.exception("raises", "throw / find_lat_long_along_traj raised with several geometry objects alive", e, {})
    for c_, g_old in objs:
        u = rng.uniform(0, 1, (4, 3000))
        u[3, :4] = [0.0, 1.0, 0.5, 1e-9]
        try:
            g_old.throw(u.copy())
            g_new = RegionGeom(make_cfg(*c_))
            g_new.throw(u.copy())
        except Exception as e:
            ctx.exception("raises", "throw raised with several geometry objects alive", e, {"cfg": c_})
            continue
        ctx.count("side-by-side", u.shape[1])
        for a, v in vars(g_new).items():
            if not isinstance(v, np.ndarray):
                continue
            w_ = getattr(g_old, a, None)
            if not (isinstance(w_, np.ndarray) and w_.shape == v.shape and w_.tobytes() == v.tobytes()):
                d = np.flatnonzero(~((w_ == v) | (np.isnan(w_.astype(float)) & np.isnan(v.astype(float))))) if isinstance(w_, np.ndarray) and w_.shape == v.shape else np.zeros(1, int)
                i = int(d[0]) if d.size else 0
                ctx.violation("history", f"altitude {c_[0]} km: an object built before {len(objs) - 1} other geometry objects gives {a}[{i}] = {np.ravel(w_)[i] if isinstance(w_, np.ndarray) and w_.size > i else w_!r} for u = {u[:, i].tolist()}; an object built and thrown on its own gives {np.ravel(v)[i]!r} ({d.size} of {v.size} entries differ)", {"cfg": c_, "attribute": a, "objects_alive": len(objs)})
                break


def run(ctx):
    rng = ctx.subrng("c02-main")
    ncfg = ctx.pick(12, 160)
    nint = ctx.pick(40_000, 150_000)
    cfgs = positions(ctx, rng, ncfg)
    nsh = ctx.pick(6, 16)
    payloads = [{"cfgs": cfgs[i::nsh], "nint": nint} for i in range(nsh)]
    core.run_shards(ctx, "nssmon.checks.c02", "shard", payloads, workers=nsh)
    special_points(ctx)
    whole_disc(ctx)
    u_dtypes(ctx)
    core.run_shards(ctx, "nssmon.checks.c02", "side_by_side", [{"cfgs": cfgs[i::4]} for i in range(4)], workers=4)
    for m in ("range", "inverse-cdf", "inverse-cdf-decimal", "monotone", "spot", "emergence", "mask", "along", "along-after-rethrow", "history", "side-by-side", "special-points", "whole-disc", "u-dtype", "call", "plots"):
        ctx.require(m)
    if ctx.obs.get("kept_events_seen", 0) < 1000:
        ctx.inconclusive_because("fewer than 1000 kept events were observed")
    return ctx.finish(
        rule="per detector position (altitude 1..40000 km, latitude incl. both poles, longitude incl. 0, +-pi, 2pi; limb angle 1e-3..0.999 of the horizon nadir angle; cone 0.1..89 deg; azimuth range 1..360 deg): a closed-cube boundary catalogue (all 81 face/edge/vertex combinations x12, per-coordinate hostile values 0, 5e-324, 1e-17..1e-8, 1-1e-8..1-2^-53, 1) plus uniform interior points; a case is a distinct (position, u)",
        assumptions=["Earth radius = astropy R_earth (the value the geometry stage uses)", "K in the closed-form CDF is taken from the code's own public horizon distance, so the residual measures the solver, not the rounding of (R+h)^2 - R^2", "angle comparisons carry the conditioning of arccos and of the degree/radian conversion of the spot (stated per monitor)", "the altitude along a trajectory is observable only through the ground offset (the function reports no altitude)"],
    )
