"""C14 — a full run is reproducible, channel-isolated and structurally complete.

Monitored executions of the real ``nuspacesim.compute(config)`` (wall-clock simTime frozen, so
the *whole* header is compared):
  reproducible  same seed under {synchronous, threads-8 (small partitions), processes-2,
                adversarial executor}: every column and header value byte-identical
  isolation     radio off leaves every optical column / keyword unchanged, optical off leaves
                every radio column / keyword unchanged, shared columns unchanged in both
  structure     one row per surviving trajectory (count observed at the geometry stage), the
                expected column set per mode / channel, the four integral keywords per enabled
                channel, equal lengths, and the cross-stage relations of C07 / C08 re-evaluated
                on the stored columns
  empty         runs in which no trajectory survives return an empty, valid table
"""
import math

import numpy as np

from .. import core, fullrun, inject, sched

LEVEL = "exploration"
SHARED = ["beta_rad", "theta_rad", "path_len", "times", "init_lat", "init_lon", "log_e_nu", "tauBeta", "tauLorentz", "tauEnergy", "showerEnergy", "tauExitProb", "altDec", "lenDec"]
OPT_COLS, OPT_KEYS = ["numPEs", "costhetaChEff", "tmcintopt"], ["OMCINT", "OMCINTGO", "ONEVPASS", "OMCINTUN"]
RAD_COLS, RAD_KEYS = ["EFields", "tmcintrad"], ["RMCINT", "RMCINTGO", "RNEVPASS", "RMCINTUN"]
M_TAU = 1.77686


def make_cfg(spec):
    from nuspacesim.config import NssConfig, Simulation

    mode, spectrum, cloud, alt, n = spec
    c = NssConfig()
    c.simulation.mode = mode
    c.simulation.thrown_events = n
    c.detector.initial_position.altitude = alt
    c.detector.initial_position.latitude, c.detector.initial_position.longitude = 0.35, -1.2
    if spectrum == "power":
        c.simulation.spectrum = Simulation.PowerSpectrum(index=2.0, lower_bound=7.0, upper_bound=10.5)
    elif spectrum == "power1":
        c.simulation.spectrum = Simulation.PowerSpectrum(index=1.0, lower_bound=8.0, upper_bound=10.0)
    if cloud == "mono":
        c.simulation.cloud_model = Simulation.MonoCloud(altitude=1.5)
    elif cloud == "map":
        c.simulation.cloud_model = Simulation.PressureMapCloud(month=8)
    aH = math.asin(6378.1 / (6378.1 + alt))
    if math.radians(7) >= aH:
        c.simulation.angle_from_limb = 0.5 * aH
    c.detector.radio.snr_threshold = 0.05
    if alt == 525.5:
        # target mode: radio signal-to-noise ratios are tiny there, and only with the trigger switched off
        # (threshold 0) is any radio weight non-zero - otherwise a cut wrongly applied to the radio channel
        # cannot show in a full run (seeded C14-17)
        c.detector.radio.snr_threshold = 0.0
    if alt == 33.5:
        # a thrown cone narrower than every shower's effective Cherenkov cone: no event is cut by the cone
        # test of the optical integral (seeded C14-15: the radio integral then re-used the optical factors)
        c.simulation.max_cherenkov_angle = math.radians(0.5)
    if alt == 2000.0:
        c.detector.radio.low_frequency, c.detector.radio.high_frequency = 300.0, 1000.0
    if alt == 1000.0:
        c.detector.radio.low_frequency, c.detector.radio.high_frequency = 50.0, 200.0
        c.simulation.tau_shower.table_version = "1"
    return core.validated(c, f"C14 configuration {spec}")


def run_one(cfg, seed, scheduler):
    kw = {}
    cm = None
    if scheduler == "synchronous":
        kw = {"scheduler": "synchronous"}
    elif scheduler == "threads":
        kw = {"scheduler": "threads", "num_workers": 8}
        cm = sched.forced_partition_size(10)
    elif scheduler == "processes":
        kw = {"scheduler": "processes", "num_workers": 2}
    elif scheduler.startswith("adversarial"):
        ex = sched.AdversarialExecutor(seed=int(scheduler.split(":")[1]))
        kw = {"scheduler": "threads", "pool": ex}
        cm = sched.forced_partition_size(10)
    import contextlib

    with cm or contextlib.nullcontext():
        sim, log = fullrun.compute(cfg, seed=seed, **kw)
    if scheduler.startswith("adversarial"):
        ex.shutdown()
    return sim, log


def diff_tables(a, b, cols=None, keys=None):
    ca, ma = fullrun.table_bytes(a)
    cb, mb = fullrun.table_bytes(b)
    names = [c for c in (cols if cols is not None else sorted(set(ca) | set(cb))) if c in ca or c in cb]
    for n in names:
        if ca.get(n) != cb.get(n):
            if n not in ca or n not in cb:
                return f"column {n!r} present in only one of the tables"
            x, y = np.asarray(a[n]), np.asarray(b[n])
            if x.shape != y.shape:
                return f"column {n!r}: shape {x.shape} vs {y.shape}"
            d = np.flatnonzero(np.any((x != y).reshape(x.shape[0], -1), axis=1)) if x.ndim else np.array([0])
            return f"column {n!r}: {d.size} of {x.shape[0]} rows differ, first row {int(d[0]) if d.size else '?'} ({np.ravel(x[d[0]])[:2] if d.size else ''} vs {np.ravel(y[d[0]])[:2] if d.size else ''})"
    ks = keys if keys is not None else sorted(set(ma) | set(mb))
    for k in ks:
        if ma.get(k) != mb.get(k):
            return f"header {k}: {ma.get(k)} vs {mb.get(k)}"
    return None


def structure(ctx, sim, log, cfg, spec, wit):
    mode = spec[0]
    n = len(sim)
    opt, rad = cfg.detector.optical.enable, cfg.detector.radio.enable
    want = [c for c in SHARED if c != "times" or mode == "Target"]
    if opt:
        want += ["numPEs", "costhetaChEff"] + (["tmcintopt"] if mode == "Target" else [])
    if rad:
        want += ["EFields"] + (["tmcintrad"] if mode == "Target" else [])
    ctx.count("structure", max(n, 1))
    if sorted(sim.colnames) != sorted(want):
        ctx.violation("structure", f"{spec}: columns {sorted(sim.colnames)}; expected {sorted(want)} (missing {sorted(set(want) - set(sim.colnames))}, unexpected {sorted(set(sim.colnames) - set(want))})", wit)
        return
    for keys, on in ((OPT_KEYS, opt), (RAD_KEYS, rad)):
        have = [k for k in keys if k in sim.meta]
        if (on and len(have) != 4) or (not on and have):
            ctx.violation("structure", f"{spec}: integral keywords {have} for a channel that is {'on' if on else 'off'}", wit)
    survivors = None
    if log.geom is not None:
        try:
            survivors = len(log.geom.beta_rad())
        except Exception:
            survivors = None
    if survivors is not None and survivors != n:
        ctx.violation("structure", f"{spec}: {n} rows for {survivors} surviving trajectories", wit)
    for c in sim.colnames:
        if len(sim[c]) != n:
            ctx.violation("structure", f"{spec}: column {c!r} has length {len(sim[c])}, the table has {n} rows", wit)
    if n == 0:
        return
    col = lambda c: np.asarray(sim[c], dtype=np.float64)
    rel = lambda a, b: np.abs(a - b) / np.maximum(np.abs(b), 1e-300)
    problems = []
    if not np.all(rel(col("tauLorentz"), col("tauEnergy") / M_TAU) <= 1e-12):
        problems.append("tauLorentz != tauEnergy / m_tau")
    g = col("tauLorentz")
    if not np.all(rel(col("tauBeta"), np.sqrt((g - 1) * (g + 1)) / g) <= 1e-12):
        problems.append("tauBeta != sqrt(1 - 1/gamma^2)")
    if not np.all(rel(col("showerEnergy"), cfg.simulation.tau_shower.etau_frac * col("tauEnergy") / 1e8) <= 1e-12):
        problems.append("showerEnergy != etau_frac * tauEnergy / 1e8")
    if not np.all(col("tauEnergy") <= 10.0 ** col("log_e_nu") * (1 + 1e-12)):
        problems.append("tauEnergy > neutrino energy")
    R = 6378.1
    l, b = col("lenDec"), col("beta_rad")
    q = l * l + 2 * R * l * np.sin(b)
    wa = q / (np.sqrt(R * R + q) + R)
    if not np.all(np.abs(col("altDec") - wa) <= 1e-9 + 1e-9 * np.abs(wa)):
        problems.append("altDec is not the altitude at lenDec along the trajectory")
    sp = cfg.simulation.spectrum
    le = col("log_e_nu")
    if hasattr(sp, "log_nu_energy"):
        if not np.all(le == sp.log_nu_energy):
            problems.append("log_e_nu != configured mono energy")
    elif not np.all((le >= sp.lower_bound) & (le <= sp.upper_bound)):
        problems.append("log_e_nu outside the configured bounds")
    if not np.all((col("tauExitProb") > 0) & (col("tauExitProb") <= 1)):
        problems.append("tauExitProb outside (0, 1]")
    if opt:
        out = (col("altDec") < 0) | (col("altDec") > 20)
        if np.any(col("numPEs")[out] != 0) or np.any(np.abs(col("costhetaChEff")[out] - math.cos(math.radians(1.5))) > 1e-15):
            problems.append("numPEs / costhetaChEff not (0, cos 1.5 deg) for decays outside [0, 20] km")
        if not np.all(np.isfinite(col("numPEs")) & (col("numPEs") >= 0)):
            problems.append("numPEs not finite and non-negative")
    if rad:
        E = np.asarray(sim["EFields"], dtype=np.float64)
        out = (col("altDec") < 0) | (col("altDec") > 10)
        if E.ndim != 2 or E.shape[0] != n or np.any(E[out] != 0) or not np.all(np.isfinite(E)):
            problems.append("EFields malformed, non-finite or non-zero outside [0, 10] km")
    if mode == "Target":
        if not np.all(np.diff(np.asarray(sim["times"].jd)) >= 0):
            problems.append("times not in order")
    if problems:
        ctx.violation("structure", f"{spec}: stored columns are mutually inconsistent: " + "; ".join(problems), wit)


def shard(ctx, si, payload):
    inject.require_safe()
    for spec, seed in payload["runs"]:
        spec = tuple(spec)
        cfg = make_cfg(spec)
        wit = {"spec": list(map(str, spec)), "seed": seed}
        base, blog = run_one(cfg, seed, "synchronous")
        if blog.exception is not None:
            ctx.exception("raises", f"compute() raised for {spec}", blog.exception, wit)
            continue
        ctx.obs.setdefault("rows", {})[str(spec)] = len(base)
        structure(ctx, base, blog, cfg, spec, wit)
        ctx.distinct.add((spec, seed))
        if len(ctx.samples) < 2:
            ctx.sample({"spec": wit["spec"], "seed": seed, "rows": len(base), "columns": base.colnames, "header": {k: repr(base.meta[k]) for k in list(OPT_KEYS + RAD_KEYS) if k in base.meta}})
        # ---- schedulers
        for sc in payload["schedulers"]:
            other, olog = run_one(cfg, seed, sc)
            ctx.count("reproducible", max(len(base), 1))
            ctx.distinct.add((spec, seed, sc))
            if olog.exception is not None:
                ctx.exception("reproducible", f"{spec}: compute() raised under scheduler {sc} (not under the synchronous one)", olog.exception, dict(wit, scheduler=sc))
                continue
            d = diff_tables(base, other)
            if d:
                ctx.violation("reproducible", f"{spec}, seed {seed}: the table under scheduler '{sc}' differs from the synchronous one: {d}", dict(wit, scheduler=sc))
        # a second synchronous run with the same seed
        again, alog = run_one(cfg, seed, "synchronous")
        ctx.count("reproducible", max(len(base), 1))
        d = None if alog.exception else diff_tables(base, again)
        if alog.exception is not None or d:
            ctx.violation("reproducible", f"{spec}: two synchronous runs with the same seed differ: {d or alog.exception!r}", wit)
        # ---- the same seeded run with every registered diagnostic plot requested (non-interactive
        #      backend): plotting is an observer, the table must be the same bit for bit
        if payload.get("plots", True):
            from nuspacesim.utils.plot_function_registry import registry

            names = sorted(registry)
            ctx.obs["registered_plots"] = names
            pt, plog = fullrun.compute(cfg, seed=seed, scheduler="synchronous", to_plot=names)
            ctx.count("plots", max(len(base), 1))
            if plog.exception is not None:
                ctx.exception("reproducible", f"{spec}: compute() raised when the diagnostic plots {names} were requested", plog.exception, dict(wit, to_plot=names))
            else:
                d = diff_tables(base, pt)
                if d:
                    ctx.violation("reproducible", f"{spec}, seed {seed}: requesting the diagnostic plots changes the results table: {d}", dict(wit, to_plot=names))
        # ---- channel isolation
        for off, keep_cols, keep_keys, name in (("radio", OPT_COLS, OPT_KEYS, "optical"), ("optical", RAD_COLS, RAD_KEYS, "radio")):
            c2 = cfg.model_copy(deep=True)
            getattr(c2.detector, off).enable = False
            t2, l2 = run_one(c2, seed, "synchronous")
            ctx.count("isolation", max(len(base), 1))
            if l2.exception is not None:
                ctx.exception("isolation", f"{spec}: compute() raised with the {off} channel off", l2.exception, dict(wit, off=off))
                continue
            cfgkeys = [k for k in base.meta if k not in OPT_KEYS + RAD_KEYS and off not in k]
            d = diff_tables(base, t2, cols=[c for c in SHARED + keep_cols if c in base.colnames], keys=keep_keys + cfgkeys)
            if d:
                ctx.violation("isolation", f"{spec}, seed {seed}: switching the {off} channel off changes the {name} / shared results: {d}", dict(wit, off=off))
            structure(ctx, t2, l2, c2, spec, dict(wit, off=off))


def empties(ctx, si, payload):
    from nuspacesim.config import NssConfig

    cases = []
    c = NssConfig()
    c.simulation.thrown_events = 0
    cases.append(("Diffuse, 0 thrown", c, 1))
    c = NssConfig()
    c.simulation.mode = "Target"
    c.simulation.thrown_events = 0
    cases.append(("Target, 0 thrown", c, 1))
    c = NssConfig()
    c.simulation.mode = "Target"
    c.simulation.thrown_events = 300
    c.simulation.target.source_obst = 600.0
    cases.append(("Target, source never occulted in the window", c, 2))
    # a single diffuse event that is dropped: search a seed
    from nuspacesim.simulation.geometry.region_geometry import RegionGeom

    c = NssConfig()
    c.simulation.thrown_events = 1
    c.simulation.max_cherenkov_angle = math.radians(60)
    for s in range(400):
        np.random.seed(s)
        g = RegionGeom(c)
        b, _, _ = g(1)
        if b.size == 0:
            cases.append((f"Diffuse, 1 thrown, dropped (seed {s})", c, s))
            break
    for name, cfg, seed in cases:
        for variant in ("both", "optical-off", "radio-off"):
            c2 = cfg.model_copy(deep=True)
            if variant == "optical-off":
                c2.detector.optical.enable = False
            if variant == "radio-off":
                c2.detector.radio.enable = False
            # (the command line always asks for the progress messages, the Python API by default does not)
            for verbose in (False, True):
                sim, log = fullrun.compute(c2, seed=seed, verbose=verbose)
                ctx.count("empty")
                ctx.distinct.add(("empty", name, variant, verbose))
                wit = {"case": name, "variant": variant, "verbose": verbose}
                if log.exception is not None:
                    ctx.exception("empty", f"{name} [{variant}, verbose={verbose}]: compute() raised instead of returning an empty table", log.exception, wit)
                    continue
                if sim is None or len(sim) != 0 or not any(str(k).startswith("HIERARCH Config") or str(k).startswith("Config") for k in sim.meta):
                    ctx.violation("empty", f"{name} [{variant}, verbose={verbose}]: returned {type(sim).__name__} with {len(sim) if sim is not None else None} rows and {len(sim.meta) if sim is not None else 0} header entries", wit)


def sequence(ctx, si, payload):
    """A, B, C, A, B in one process: a run must not depend on the runs made before it
    (module- or class-level caches keyed too narrowly show up here)."""
    inject.require_safe()
    specs = [tuple(s_) for s_ in payload["specs"]]
    first = {}
    for rnd in range(2):
        for spec in specs:
            cfg = make_cfg(spec)
            if rnd == 1 and spec[0] == "Diffuse":
                pass
            sim, log = run_one(cfg, payload["seed"], "synchronous")
            ctx.count("sequence", max(len(sim) if sim is not None else 0, 1))
            ctx.distinct.add(("sequence", spec, rnd))
            if log.exception is not None:
                ctx.exception("reproducible", f"{spec}: compute() raised in a sequence of different configurations", log.exception, {"spec": list(map(str, spec))})
                continue
            if rnd == 0:
                first[spec] = sim
            else:
                d = diff_tables(first[spec], sim)
                if d:
                    ctx.violation("reproducible", f"{spec}, seed {payload['seed']}: the same seeded run gives a different table after other configurations were run in the same process: {d}", {"spec": list(map(str, spec)), "sequence": [list(map(str, s_)) for s_ in specs]})


def scan(ctx, si, payload):
    """One configuration object edited by attribute assignment between runs (a parameter scan in one
    session): after every edit the seeded run on the edited object equals, bit for bit, the run on a
    configuration freshly constructed with the same values (nothing derived from an earlier value may
    survive on the object)."""
    from nuspacesim.config import Simulation

    inject.require_safe()
    cfg = make_cfg(tuple(payload["spec"]))
    edits = [
        ("detector.optical.quantum_efficiency", 0.4),
        ("detector.optical.telescope_effective_area", 5.0),
        ("simulation.spectrum.log_nu_energy", 9.5),
        ("detector.radio.snr_threshold", 0.01),
        ("detector.optical.photo_electron_threshold", 3.0),
        ("simulation.max_cherenkov_angle", 0.1),
        ("detector.radio.nantennas", 20),
        ("simulation.tau_shower.etau_frac", 0.3),
        ("detector.initial_position.latitude", -0.9),
        ("simulation.angle_from_limb", 0.05),
        ("simulation.cloud_model", Simulation.MonoCloud(altitude=2.5)),
        ("detector.radio.high_frequency", 500.0),
        ("simulation.tau_shower.table_version", "2"),
    ][: payload["nedits"]]
    run_one(cfg, payload["seed"], "synchronous")  # the object has been used once before the first edit
    for k, (path, val) in enumerate(edits):
        obj = cfg
        parts = path.split(".")
        for a in parts[:-1]:
            obj = getattr(obj, a)
        if not hasattr(obj, parts[-1]):
            continue
        setattr(obj, parts[-1], val)
        used, ulog = run_one(cfg, payload["seed"], "synchronous")
        fresh_cfg = core.validated(cfg, f"C14 scan step {k} ({path})")
        fresh, flog = run_one(fresh_cfg, payload["seed"], "synchronous")
        ctx.count("config-scan", max(len(fresh) if fresh is not None else 0, 1))
        ctx.distinct.add(("scan", path))
        wit = {"spec": list(map(str, payload["spec"])), "step": k, "edit": f"{path} = {val!r}", "earlier_edits": [e[0] for e in edits[:k]]}
        if ulog.exception is not None or flog.exception is not None:
            ctx.exception("reproducible", f"compute() raised at step {k} of a scan over one configuration object ({path} = {val!r})", ulog.exception or flog.exception, wit)
            continue
        d = diff_tables(fresh, used)
        if d:
            ctx.violation("reproducible", f"step {k} of a scan over one configuration object: after `{path} = {val!r}` the run on the edited object differs from the run on a freshly constructed configuration with the same values: {d}", wit)


def entry(ctx, si, payload):
    if payload["kind"] == "scan":
        scan(ctx, si, payload)
    elif payload["kind"] == "sequence":
        sequence(ctx, si, payload)
    elif payload["kind"] == "runs":
        shard(ctx, si, payload)
    else:
        empties(ctx, si, payload)


def run(ctx):
    T = ctx.thorough()
    specs = [
        ("Diffuse", "mono", None, 525.0, 150),
        ("Diffuse", "power", "mono", 33.0, 150),
        ("Diffuse", "mono", "map", 525.0, 400),
        ("Diffuse", "power1", None, 2000.0, 150),
        ("Target", "mono", None, 525.0, 2500),
        ("Target", "power", "map", 33.0, 2500),
        ("Target", "mono", "mono", 2000.0, 2500),
        ("Diffuse", "power", "map", 2000.0, 300),
        ("Target", "power", None, 525.0, 3000),
        ("Diffuse", "mono", "mono", 33.0, 150),
        ("Target", "mono", "map", 525.0, 2500),
        ("Diffuse", "power", None, 525.0, 150),
    ]
    specs.insert(3, ("Diffuse", "mono", None, 33.5, 300))
    specs.insert(5, ("Target", "mono", None, 525.5, 2500))
    if T:
        specs = [(m, s, c, a, n) for m in ("Diffuse", "Target") for s in ("mono", "power") for c in (None, "mono", "map") for a in (33.0, 525.0, 2000.0) for n in ((150 if c != "map" else 300) if m == "Diffuse" else 2500,)]
        specs += [("Diffuse", "mono", None, 33.5, 300), ("Diffuse", "power", "mono", 33.5, 300), ("Target", "mono", None, 525.5, 2500), ("Target", "power", "map", 525.5, 2500)]
    seeds = [11 + ctx.seed, 12 + ctx.seed] if not T else [11 + ctx.seed, 12 + ctx.seed, 13 + ctx.seed]
    P = []
    for i, sp in enumerate(specs):
        for j, sd in enumerate(seeds if (T or i < 6) else seeds[:1]):
            scs = ["threads"]
            if (i + j) % 4 == 0:
                scs.append("processes")
            if (i + j) % 2 == 1:
                scs.append(f"adversarial:{sd * 7 + i}")
            P.append({"kind": "runs", "runs": [(sp, sd)], "schedulers": scs})
    P.append({"kind": "empty"})
    P.append({"kind": "scan", "seed": 31 + ctx.seed, "spec": ("Diffuse", "mono", None, 525.0, 150), "nedits": 7 if not T else 13})
    P.append({"kind": "scan", "seed": 32 + ctx.seed, "spec": ("Target", "mono", None, 525.0, 2500), "nedits": 5 if not T else 13})
    P.append({"kind": "sequence", "seed": 21 + ctx.seed, "specs": [("Diffuse", "mono", "map", 525.0, 150), ("Diffuse", "power", "mono", 33.0, 150), ("Target", "mono", "map", 2000.0, 2500), ("Diffuse", "mono", None, 2000.0, 150)]})
    P.append({"kind": "sequence", "seed": 22 + ctx.seed, "specs": [("Target", "power", None, 525.0, 2500), ("Target", "mono", "mono", 33.0, 2500), ("Diffuse", "power1", "map", 1000.0, 150)]})
    core.run_shards(ctx, "nssmon.checks.c14", "entry", P, workers=16, timeout=ctx.pick(1500, 7000))
    for m in ("reproducible", "config-scan", "plots", "isolation", "structure", "empty", "sequence"):
        ctx.require(m)
    return ctx.finish(
        rule="configurations from the cross product {Diffuse, Target} x {mono, power-law (also index 1)} x {no cloud, uniform cloud, pressure map} x altitudes {33, 525, 2000} km (quick: a covering subset of 12; thorough: all 36) x seeds; each: synchronous reference, threads-8 with small partitions, processes-2 or an adversarial executor, a repeated synchronous run, radio-off and optical-off runs; plus zero-survivor runs (N = 0 in both modes, a never-occulted target, a single dropped event) in all channel variants; a case is a distinct (configuration, seed, scheduler / variant)",
        assumptions=["simTime is frozen for the duration of the runs so that the whole header can be compared", "spawned dask workers re-import nssmon.__main__ (source-built stepping function in every process)", "the threaded runs force a partition size of 10 (the property quantifies over partition sizes)"],
    )
