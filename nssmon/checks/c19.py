"""C19 — standard-atmosphere pressure and altitude are mutual inverses everywhere.

Monitors (all on the real functions of both shipped copies):
  roundtrip-z   |z(P(z)) - z| <= 1e-6 km for z in [0, 120]
  roundtrip-p   |P(z(P)) - P| / P <= 1e-6 for P in [P(120 km), 101325] (and, with the
                same tolerance, down to 1e-300 Pa, which the formulas also cover)
  positive      P(z) > 0 for finite z
  monotone      P non-increasing in z up to relative steps of 3e-7
  endpoints     P(0) = 101325, z(101325) = 0, P(inf) = 0, z(0) = inf
  scalar-path   Python floats / numpy scalars / 0-d / 2-d arrays give the 1-d values
  copies        the two copies agree bit for bit on every input tried
  abs-ref       agreement with an independent per-layer evaluation (atm_ref)
  contracts     icontract post-conditions on the four functions (shape, no NaN)
"""
import math

import numpy as np

from ..oracles import atm_ref

LEVEL = "exploration"
ZTOL = 1e-6
PTOL = 1e-6
STEP = 3e-7


class PostBroken(Exception):
    pass


def _shape_ok(result, z=None, P=None):
    a = z if z is not None else P
    return np.shape(result) == np.shape(a)


def ulp_neighbourhood(v, k=64):
    out = [v]
    a = b = v
    for _ in range(k):
        a = np.nextafter(a, -np.inf)
        b = np.nextafter(b, np.inf)
        out += [a, b]
    return np.array(sorted(out))


def switch_altitude(hb):
    """Smallest double z with geopotential(z) >= hb (bisection on the standard formula)."""
    lo, hi = 0.0, 200.0
    for _ in range(200):
        mid = 0.5 * (lo + hi)
        if mid == lo or mid == hi:
            break
        if mid * atm_ref.R_EARTH / (mid + atm_ref.R_EARTH) >= hb:
            hi = mid
        else:
            lo = mid
    return hi


def run(ctx):
    import icontract
    from nuspacesim.simulation.atmosphere import pressure as A
    from nuspacesim.simulation.eas_optical import atmospheric_models as B

    ncontract = {"n": 0}

    def counted_shape_z(result, z):
        ncontract["n"] += 1
        return _shape_ok(result, z=z)

    def counted_shape_p(result, P):
        ncontract["n"] += 1
        return _shape_ok(result, P=P)

    copies = {}
    for name, mod in (("atmosphere.pressure", A), ("eas_optical.atmospheric_models", B)):
        pz = icontract.ensure(counted_shape_z, error=PostBroken)(mod.us_std_atm_pressure_from_altitude)
        zp = icontract.ensure(counted_shape_p, error=PostBroken)(mod.us_std_atm_altitude_from_pressure)
        copies[name] = (pz, zp)

    rng = ctx.subrng("c19")
    nrand = ctx.pick(100_000, 4_000_000)

    # ---------------- workload -------------------------------------------------------
    zb = [switch_altitude(h) for h in atm_ref.H_B[1:]]
    z_nb = np.concatenate([ulp_neighbourhood(z) for z in zb] + [ulp_neighbourhood(z) for z in atm_ref.boundary_altitudes()])
    z_rand = rng.uniform(0.0, 120.0, nrand)
    z_grid = np.linspace(0.0, 120.0, ctx.pick(200_001, 2_000_001))
    z_edge = np.array([0.0, 5e-324, 1e-300, 1e-12, 1e-6, 119.999999, 120.0])
    z_all = np.unique(np.concatenate([z_nb, z_rand, z_grid, z_edge]))
    z_all = z_all[(z_all >= 0) & (z_all <= 120.0)]

    p_top = atm_ref.pressure(120.0)
    pb = atm_ref.boundary_pressures()
    p_nb = np.concatenate([ulp_neighbourhood(p) for p in pb])
    p_rand = np.exp(rng.uniform(math.log(p_top), math.log(101325.0), nrand))
    p_lin = rng.uniform(p_top, 101325.0, nrand // 4)
    p_edge = np.array([p_top, 101325.0, np.nextafter(101325.0, 0), 1e-3, 1.0])
    p_all = np.unique(np.concatenate([p_nb, p_rand, p_lin, p_edge]))
    p_all = p_all[(p_all >= p_top) & (p_all <= 101325.0)]
    p_ext = np.exp(rng.uniform(math.log(1e-300), math.log(p_top), nrand // 10))

    ctx.exhaustive_subspaces.append("every double within +-64 ulps of the 7 layer boundaries, in altitude (both the tabulated and the bisection-located switch point) and in pressure")

    results = {}
    for name, (pz, zp) in copies.items():
        try:
            P = pz(z_all)
            zback = zp(P)
            Z = zp(p_all)
            pback = pz(Z)
            Zx = zp(p_ext)
            pxback = pz(Zx)
        except PostBroken as e:
            ctx.violation("contract", f"{name}: post-condition broken: {e}", {"copy": name})
            continue
        except Exception as e:
            ctx.exception("raises", f"{name}: in-domain array input raised", e, {"copy": name})
            continue
        results[name] = (P, zback, Z, pback)

        # roundtrip-z
        err = np.abs(zback - z_all)
        ctx.count("roundtrip-z", z_all.size)
        ctx.track_worst("roundtrip_z_km", np.nanmax(err), ZTOL)
        bad = ~(err <= ZTOL)
        if bad.any():
            i = int(np.argmax(np.where(bad, np.nan_to_num(err, nan=np.inf), -1)))
            ctx.violation("roundtrip-z", f"{name}: z(P(z)) differs from z by {err[i]:.3e} km at z={z_all[i]!r} ({int(bad.sum())} points)", {"copy": name, "z": z_all[i].hex(), "P": float(P[i]), "zback": float(zback[i])})
        # roundtrip-p
        rel = np.abs(pback - p_all) / p_all
        ctx.count("roundtrip-p", p_all.size)
        ctx.track_worst("roundtrip_p_rel", np.nanmax(rel), PTOL)
        bad = ~(rel <= PTOL)
        if bad.any():
            i = int(np.argmax(np.where(bad, np.nan_to_num(rel, nan=np.inf), -1)))
            ctx.violation("roundtrip-p", f"{name}: P(z(P)) differs from P by {rel[i]:.3e} relative at P={p_all[i]!r} ({int(bad.sum())} points)", {"copy": name, "P": p_all[i].hex(), "z": float(Z[i]), "pback": float(pback[i])})
        relx = np.abs(pxback - p_ext) / p_ext
        ctx.count("roundtrip-p-extended", p_ext.size)
        ctx.track_worst("roundtrip_p_rel_below_model_top", np.nanmax(relx), PTOL)
        bad = ~(relx <= PTOL)
        if bad.any():
            i = int(np.argmax(np.where(bad, np.nan_to_num(relx, nan=np.inf), -1)))
            ctx.violation("roundtrip-p", f"{name}: P(z(P)) differs from P by {relx[i]:.3e} relative at P={p_ext[i]!r} (above the model top)", {"copy": name, "P": p_ext[i].hex()})
        # positive
        ctx.count("positive", z_all.size)
        bad = ~(P > 0)
        if bad.any():
            i = int(np.flatnonzero(bad)[0])
            ctx.violation("nonpositive", f"{name}: P({z_all[i]!r}) = {P[i]!r} is not positive", {"copy": name, "z": z_all[i].hex()})
        # monotone (z_all is sorted & unique)
        ctx.count("monotone", z_all.size - 1)
        ratio = P[1:] / P[:-1]
        ctx.track_worst("upward_step_rel", np.nanmax(ratio) - 1.0, STEP)
        bad = ~(ratio <= 1.0 + STEP)
        if bad.any():
            i = int(np.argmax(np.where(bad, np.nan_to_num(ratio, nan=np.inf), -1)))
            ctx.violation("nonmonotone", f"{name}: pressure rises by {ratio[i]-1:.3e} relative between z={z_all[i]!r} and z={z_all[i+1]!r}", {"copy": name, "z0": z_all[i].hex(), "z1": z_all[i + 1].hex()})
        # absolute reference on a subsample (python-float loop is slow)
        sub = np.concatenate([z_nb, rng.choice(z_all, ctx.pick(3000, 30000), replace=False)])
        sub = sub[(sub >= 0) & (sub <= 120)]
        refP = np.array([atm_ref.pressure(float(z)) for z in sub])
        got = pz(sub)
        hh = sub * atm_ref.R_EARTH / (sub + atm_ref.R_EARTH)
        away = np.min(np.abs(hh[:, None] - np.array(atm_ref.H_B[1:])[None, :]), axis=1) > 1e-9
        relr = np.abs(got - refP) / refP
        ctx.count("abs-ref", int(away.sum()))
        if away.any():
            ctx.track_worst("abs_ref_rel", np.max(relr[away]), 1e-12)
        bad = away & ~(relr <= 1e-12)
        if bad.any():
            i = int(np.flatnonzero(bad)[0])
            ctx.violation("abs-ref", f"{name}: P({sub[i]!r}) = {got[i]!r}, independent layer formula gives {refP[i]!r}", {"copy": name, "z": sub[i].hex()})
        # near a boundary either adjacent layer's formula is acceptable (1 ulp of geopotential)
        near = ~away
        if near.any():
            lo = np.array([atm_ref.pressure(float(np.nextafter(z, -np.inf))) for z in sub[near]])
            hi = np.array([atm_ref.pressure(float(np.nextafter(z, np.inf))) for z in sub[near]])
            g = got[near]
            ok = (np.abs(g - refP[near]) / refP[near] <= 1e-6)
            ctx.count("abs-ref-boundary", int(near.sum()))
            if (~ok).any():
                i = int(np.flatnonzero(~ok)[0])
                ctx.violation("abs-ref", f"{name}: near a layer boundary P({sub[near][i]!r}) = {g[i]!r} is not within 1e-6 of the layer formula {refP[near][i]!r}", {"copy": name, "z": sub[near][i].hex()})
        subp = np.concatenate([p_nb[(p_nb >= p_top) & (p_nb <= 101325)], rng.choice(p_all, ctx.pick(3000, 30000), replace=False)])
        refZ = np.array([atm_ref.altitude(float(p)) for p in subp])
        gotz = zp(subp)
        awayp = np.min(np.abs(subp[:, None] / np.array(pb)[None, :] - 1.0), axis=1) > 1e-12
        ez = np.abs(gotz - refZ)
        ctx.count("abs-ref", int(awayp.sum()))
        if awayp.any():
            ctx.track_worst("abs_ref_z_km", np.max(ez[awayp]), 1e-9)
        bad = awayp & ~(ez <= 1e-9)
        if bad.any():
            i = int(np.flatnonzero(bad)[0])
            ctx.violation("abs-ref", f"{name}: z({subp[i]!r}) = {gotz[i]!r}, independent layer formula gives {refZ[i]!r}", {"copy": name, "P": subp[i].hex()})

        # endpoints
        ctx.count("endpoints", 4)
        try:
            e = [float(pz(0.0)), float(zp(101325.0)), float(pz(np.inf)), float(zp(0.0))]
            if not (e[0] == 101325.0 and abs(e[1]) <= ZTOL and e[2] == 0.0 and e[3] == math.inf):
                ctx.violation("endpoint", f"{name}: endpoints P(0), z(101325), P(inf), z(0) = {e}", {"copy": name, "values": e})
            ei = pz(np.array([0.0, np.inf, 5.0]))
            ez0 = zp(np.array([0.0, 101325.0, 5.0e4]))
            if not (ei[0] == 101325.0 and ei[1] == 0.0 and ez0[0] == math.inf and abs(ez0[1]) <= ZTOL):
                ctx.violation("endpoint", f"{name}: endpoints inside an array: {ei.tolist()} {ez0.tolist()}", {"copy": name})
        except Exception as ex:
            ctx.exception("endpoint", f"{name}: endpoint evaluation raised", ex, {"copy": name})

        # scalar path
        zs = [0.0, 3.7, 11.0190, 20.0631, 47.35, 86.0, 119.5, zb[0], zb[3], float(np.nextafter(zb[6], 0))]
        ref1 = pz(np.array(zs))
        refz1 = zp(ref1)
        for k, z in enumerate(zs):
            forms = {"pyfloat": float(z), "np.float64": np.float64(z), "0-d": np.array(z), "2-d": np.array([[z, z], [z, z]])}
            for fname, val in forms.items():
                ctx.count("scalar-path", 1)
                try:
                    r = np.asarray(pz(val))
                    rz = np.asarray(zp(pz(val)))
                    if not (np.all(r == ref1[k]) and np.all(rz == refz1[k])):
                        ctx.violation("scalar-path", f"{name}: {fname} input {z!r} gives {r.ravel()[0]!r}, 1-d array path gives {ref1[k]!r}", {"copy": name, "form": fname, "z": float(z).hex()})
                except PostBroken as ex:
                    ctx.violation("scalar-path", f"{name}: {fname} input {z!r}: result shape differs from input shape", {"copy": name, "form": fname})
                except Exception as ex:
                    ctx.exception("scalar-path", f"{name}: {fname} input {z!r} raised", ex, {"copy": name, "form": fname})
            # single precision scalar: only looseness appropriate to float32 is asked
            ctx.count("scalar-path-f32", 1)
            try:
                r32 = float(np.asarray(pz(np.float32(z))))
                want = float(pz(float(np.float32(z))))
                if not abs(r32 - want) <= 1e-4 * want:
                    ctx.violation("scalar-path", f"{name}: float32 scalar {z!r} gives {r32!r}, float64 evaluation of the same number gives {want!r}", {"copy": name, "form": "np.float32"})
            except Exception as ex:
                ctx.exception("scalar-path", f"{name}: np.float32 scalar input {z!r} raised", ex, {"copy": name, "form": "np.float32"})

        # ---- memory layout and buffer history: the value at a position depends on the number stored there,
        #      not on the array's strides / order / writability, nor on what the same array object held at
        #      the previous call (seeded C19-15: flat views of a Fortran-ordered result; C19-16: layer
        #      index memoised on the identity of the input array)
        lay_rng = ctx.subrng("c19-layout", name)
        zl = np.concatenate([lay_rng.uniform(0.0, 120.0, 116), np.array(zs[:4])]).reshape(10, 12)
        zl3 = lay_rng.uniform(0.0, 120.0, 2 * 3 * 4).reshape(2, 3, 4)
        big = lay_rng.uniform(0.0, 120.0, (20, 24))
        ro = zl.copy()
        ro.setflags(write=False)
        layouts = {
            "C 2-d": zl,
            "Fortran 2-d": np.asfortranarray(zl),
            "transposed view": zl.T,
            "strided 2-d view": big[::2, ::2],
            "negative-stride view": zl[::-1, ::-1],
            "3-d permuted axes": zl3.transpose(2, 0, 1),
            "3-d Fortran": np.asfortranarray(zl3),
            "broadcast view": np.broadcast_to(zl[0], (5, 12)),
            "read-only": ro,
            "strided 1-d view": big.ravel()[::3],
        }
        for lname, arr in layouts.items():
            ctx.count("layout", arr.size)
            try:
                flat = np.ascontiguousarray(arr).ravel()
                wantP = np.asarray(pz(flat.copy())).reshape(arr.shape)
                gotP = np.asarray(pz(arr))
                wantZ = np.asarray(zp(np.ascontiguousarray(wantP).ravel().copy())).reshape(arr.shape)
                pin = wantP.copy(order="F") if "Fortran" in lname else (np.ascontiguousarray(wantP.T).T if "transposed" in lname or "permuted" in lname else wantP)
                gotZ = np.asarray(zp(pin))
                if gotP.shape != arr.shape or not np.array_equal(gotP, wantP):
                    nbad = int(np.sum(gotP != wantP)) if gotP.shape == arr.shape else arr.size
                    ctx.violation("layout", f"{name}: pressure of a {lname} altitude array {arr.shape} differs from the values of the same numbers as a fresh 1-d array at {nbad} of {arr.size} positions (e.g. {np.asarray(gotP).ravel()[0]!r} vs {wantP.ravel()[0]!r})", {"copy": name, "layout": lname})
                if gotZ.shape != arr.shape or not np.array_equal(gotZ, wantZ):
                    ctx.violation("layout", f"{name}: altitude of a {lname} pressure array {arr.shape} differs from the values of the same numbers as a fresh 1-d array", {"copy": name, "layout": lname})
            except PostBroken:
                ctx.violation("layout", f"{name}: {lname} input: result shape differs from input shape", {"copy": name, "layout": lname})
            except Exception as ex:
                ctx.exception("layout", f"{name}: {lname} input raised", ex, {"copy": name, "layout": lname})
        for direction, fn, lohi in (("pressure_from_altitude", pz, (0.0, 120.0)), ("altitude_from_pressure", zp, (math.log(max(p_top, 1e-2)), math.log(101325.0)))):
            rounds = []
            for rnd in range(6):
                vals = lay_rng.uniform(lohi[0], lohi[1], 101)
                if direction == "altitude_from_pressure":
                    vals = np.exp(vals)
                if rnd % 2:
                    vals = np.sort(vals)[::-1].copy()
                if rnd == 3:
                    vals = rounds[-1] * (0.1 if direction == "altitude_from_pressure" else 0.5)
                rounds.append(vals)
            try:
                # the expected values first, each from its own fresh array, so that the calls on the re-used
                # array below are consecutive calls of this function
                wants = [np.asarray(fn(v.copy())) for v in rounds]
            except Exception as ex:
                ctx.exception("buffer-history", f"{name}: {direction} raised", ex, {"copy": name, "direction": direction})
                continue
            buf = np.empty(101)
            for rnd, (vals, want) in enumerate(zip(rounds, wants)):
                if rnd == 3:
                    buf *= 0.1 if direction == "altitude_from_pressure" else 0.5  # in-place arithmetic, as a caller's loop would
                else:
                    buf[:] = vals  # the same array object, new contents
                ctx.count("buffer-history", 101)
                try:
                    got = np.asarray(fn(buf))
                    if not np.array_equal(got, want):
                        ctx.violation("buffer-history", f"{name}: {direction}: call #{rnd + 1} with the same array object refilled in place differs from a fresh array holding the same numbers at {int(np.sum(got != want))} of 101 positions", {"copy": name, "direction": direction, "round": rnd})
                        break
                    if not np.array_equal(buf, vals):
                        ctx.violation("buffer-history", f"{name}: {direction}: the input array was modified by the call", {"copy": name, "direction": direction})
                        break
                except Exception as ex:
                    ctx.exception("buffer-history", f"{name}: {direction} on a re-used array raised", ex, {"copy": name, "direction": direction})
                    break

        # ---- pressures that are not doubles: the shipped cloud-top-pressure maps are float32, and
        #      whole-number pressures come as integers. The altitude of such a pressure is the altitude of
        #      the same number as a double (1e-6 km), and P -> z -> P closes to 1e-6 relative.
        p32 = np.exp(rng.uniform(math.log(max(p_top, 1e-2)), math.log(101325.0), 4000)).astype(np.float32)
        pint = np.unique(np.round(np.exp(rng.uniform(0.0, math.log(101325.0), 2000)))).astype(np.int64)
        for dname, parr in (("float32", p32), ("int64", pint)):
            try:
                ctx.count("dtype", parr.size)
                za = np.asarray(zp(parr), dtype=np.float64)
                zd = np.asarray(zp(parr.astype(np.float64)))
                back = np.asarray(pz(za), dtype=np.float64)
                e1 = np.abs(za - zd)
                e2 = np.abs(back - parr.astype(np.float64)) / parr.astype(np.float64)
                if not (np.all(e1 <= ZTOL) and np.all(e2 <= 1e-6)):
                    i = int(np.argmax(np.maximum(e1 / ZTOL, e2 / 1e-6)))
                    ctx.violation("roundtrip-p", f"{name}: {dname} pressure {parr[i]!r} Pa -> altitude {za[i]!r} km (the same number as a double gives {zd[i]!r} km) -> pressure {back[i]!r} Pa: relative round-trip error {e2[i]:.2e}", {"copy": name, "dtype": dname, "P": float(parr[i])})
                s0 = parr[len(parr) // 2]
                zs0 = float(np.asarray(zp(s0)))
                if not abs(zs0 - float(zd[len(parr) // 2])) <= ZTOL:
                    ctx.violation("scalar-path", f"{name}: {dname} scalar pressure {s0!r} gives {zs0!r} km, the same number as a double {float(zd[len(parr) // 2])!r} km", {"copy": name, "dtype": dname})
            except PostBroken:
                ctx.violation("scalar-path", f"{name}: {dname} pressures: result shape differs from input shape", {"copy": name, "dtype": dname})
            except Exception as ex:
                ctx.exception("roundtrip-p", f"{name}: {dname} pressures raised", ex, {"copy": name, "dtype": dname})

        # ---- altitudes that are not doubles: whole-number altitudes (the surface, the layer boundaries, the
        #      model top) arrive as integers, table columns as float32. The pressure of such an altitude is
        #      the pressure of the same number as a double, and z -> P -> z closes to 1e-6 km.
        zi = np.array([0, 11, 20, 32, 47, 51, 71, 85, 120], dtype=np.int64)
        z32 = np.concatenate([np.linspace(0, 120, 2001), rng.uniform(0, 120, 2000)]).astype(np.float32)
        for dname, zarr in (("int64", zi), ("float32", z32), ("uint8", zi.astype(np.uint8))):
            try:
                ctx.count("dtype", zarr.size)
                pa = np.asarray(pz(zarr), dtype=np.float64)
                pd_ = np.asarray(pz(zarr.astype(np.float64)))
                zb_ = np.asarray(zp(pa), dtype=np.float64)
                e1 = np.abs(pa - pd_) / pd_
                e2 = np.abs(zb_ - zarr.astype(np.float64))
                if not (np.all(e1 <= 1e-6) and np.all(e2 <= ZTOL)):
                    i = int(np.argmax(np.maximum(e1 / 1e-6, e2 / ZTOL)))
                    ctx.violation("roundtrip-z", f"{name}: {dname} altitude {zarr[i]!r} km -> pressure {pa[i]!r} Pa (the same number as a double gives {pd_[i]!r}) -> altitude {zb_[i]!r} km: round-trip error {e2[i]:.2e} km", {"copy": name, "dtype": dname, "z": float(zarr[i])})
                for sc in (0, 11, 120, np.int64(47), np.float32(100.3), True):
                    ps_ = float(np.asarray(pz(sc)))
                    if not abs(ps_ - float(np.asarray(pz(float(sc))))) <= 1e-6 * ps_:
                        ctx.violation("scalar-path", f"{name}: altitude {sc!r} ({type(sc).__name__}) gives {ps_!r} Pa, the same number as a double {float(np.asarray(pz(float(sc))))!r} Pa", {"copy": name, "dtype": type(sc).__name__})
            except PostBroken:
                ctx.violation("scalar-path", f"{name}: {dname} altitudes: result shape differs from input shape", {"copy": name, "dtype": dname})
            except Exception as ex:
                ctx.exception("roundtrip-z", f"{name}: {dname} altitudes raised", ex, {"copy": name, "dtype": dname})

    # copies agree bit for bit
    if len(results) == 2:
        (n1, r1), (n2, r2) = results.items()
        for lbl, a, b in zip(("P(z)", "z(P(z))", "z(P)", "P(z(P))"), r1, r2):
            ctx.count("copies", a.size)
            same = a.tobytes() == b.tobytes()
            if not same:
                d = np.flatnonzero(~((a == b) | ((a != a) & (b != b))))
                i = int(d[0]) if d.size else 0
                ctx.violation("copies-differ", f"{lbl}: the two shipped copies differ in {d.size} of {a.size} values, first at index {i}: {a[i]!r} vs {b[i]!r}", {"index": i, "a": float(a[i]), "b": float(b[i]), "label": lbl})
    # integer scalars: reported, not judged (the property does not speak of dtypes)
    try:
        A.us_std_atm_pressure_from_altitude(5)
        ctx.observe("python_int_altitude_accepted", True)
    except Exception as e:
        ctx.observe("python_int_altitude_accepted", f"raises {type(e).__name__}")

    if ctx.thorough():
        from .. import repotests

        repotests.run(ctx, "C19")
    ctx.count("contracts", ncontract["n"])
    ctx.observe("boundary_switch_altitudes_km", zb)
    for m in ("dtype", "roundtrip-z", "roundtrip-p", "positive", "monotone", "endpoints", "scalar-path", "copies", "abs-ref", "contracts", "layout", "buffer-history"):
        ctx.require(m)
    ctx.distinct.add_rows(z_all)
    ctx.distinct.add_rows(p_all)
    ctx.sample({"z_km": float(z_all[z_all.size // 3]), "P_Pa": float(results[next(iter(results))][0][z_all.size // 3])} if results else {})
    ctx.sample({"boundary_neighbourhood_z": [float(x) for x in ulp_neighbourhood(zb[0], 2)]})
    ctx.sample({"boundary_neighbourhood_P": [float(x) for x in ulp_neighbourhood(pb[6], 2)]})
    return ctx.finish(
        rule="altitudes: uniform random in [0,120] km + dense sorted grid + every double within 64 ulps of each of the 7 layer boundaries; pressures: log- and linearly-uniform in [P(120 km), 101325] Pa + 64-ulp neighbourhoods of the 7 tabulated boundary pressures; a case is one distinct input value (all are non-trivial: each exercises a layer formula)",
        assumptions=["numpy elementary functions", "the per-layer reference uses the published 1976 constants", "float32 scalars are only asked float32-level agreement", "integer-typed inputs are outside the property (observed, not judged)"],
    )
