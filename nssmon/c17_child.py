"""Child process for C17: runs the real compute() with write_stages and an instrumented
Table.write that snapshots the file after each write and can raise or kill the process at a
chosen boundary. Invoked as ``python -m nssmon.c17_child '<json>'``; prints one JSON line.
"""
import json
import os
import shutil
import sys
import warnings

from . import reach

reach.start()

warnings.filterwarnings("ignore")


_FINAL = {}


class InjectedFault(Exception):
    pass


def _bye():
    # the process "dies" here; what it executed so far is reported to the parent's reach table first
    if os.environ.get("NSSMON_REACH_FILE"):
        reach.dump(os.environ["NSSMON_REACH_FILE"])
    os._exit(137)


def _nonfinite(meta):
    """Keys whose value is a non-finite float (FITS has no card for them)."""
    import math

    out = []
    for k, v in meta.items():
        if isinstance(v, tuple) and v:
            v = v[0]  # (value, comment)
        try:
            if isinstance(v, float) or type(v).__module__ == "numpy" and getattr(v, "dtype", None) is not None and v.dtype.kind == "f":
                if not math.isfinite(float(v)):
                    out.append(k)
        except Exception:
            pass
    return out


def build_config(spec):
    from nuspacesim.config import NssConfig, Simulation

    c = NssConfig()
    c.simulation.mode = spec.get("mode", "Diffuse")
    c.simulation.thrown_events = spec.get("n", 60)
    c.detector.optical.enable = spec.get("optical", True)
    c.detector.radio.enable = spec.get("radio", True)
    if spec.get("spectrum") == "power":
        c.simulation.spectrum = Simulation.PowerSpectrum(index=2.0, lower_bound=7.0, upper_bound=10.5)
    if spec.get("cloud") == "map":
        c.simulation.cloud_model = Simulation.PressureMapCloud(month=3)
    elif spec.get("cloud") == "mono_default":
        c.simulation.cloud_model = Simulation.MonoCloud()  # altitude -inf
    elif spec.get("cloud") == "mono":
        c.simulation.cloud_model = Simulation.MonoCloud(altitude=1.0)
    if "alt" in spec:
        c.detector.initial_position.altitude = spec["alt"]
    c.detector.radio.snr_threshold = 0.01
    if spec.get("never_occulted"):
        c.simulation.target.source_obst = 600.0
    if "limb_deg" in spec:
        import math

        c.simulation.angle_from_limb = math.radians(spec["limb_deg"])
    if "cone_deg" in spec:
        import math

        c.simulation.max_cherenkov_angle = math.radians(spec["cone_deg"])
    return c


class WriteProbe:
    """Descriptor replacing astropy.table.Table.write for the duration of a run."""

    def __init__(self, orig, outfile, snapdir, plan, log):
        self.orig, self.outfile, self.snapdir, self.plan, self.log = orig, outfile, snapdir, plan, log
        self.k = 0

    def __get__(self, inst, owner):
        real = self.orig.__get__(inst, owner)
        if inst is None:
            return real
        probe = self

        def w(*a, **kw):
            if not a or a[0] != probe.outfile:
                return real(*a, **kw)
            nxt = probe.k + 1
            if probe.plan.get("kind") == "die-before" and probe.plan.get("at") == nxt:
                _bye()
            if probe.plan.get("kind") == "raise" and probe.plan.get("at") == nxt:
                raise InjectedFault(f"injected failure before write {nxt}")
            r = real(*a, **kw)
            probe.k = nxt
            probe.log.append({"k": nxt, "colnames": list(inst.colnames), "meta_keys": list(inst.meta.keys()), "meta_nonfinite": _nonfinite(inst.meta), "kwargs": {x: repr(y) for x, y in kw.items()}})
            if probe.snapdir:
                shutil.copyfile(probe.outfile, os.path.join(probe.snapdir, f"{nxt:03d}.fits"))
            if probe.plan.get("kind") == "die-after" and probe.plan.get("at") == nxt:
                _bye()
            return r

        return w


def method_fault(plan):
    """Make the named stage method raise at entry (no source edit: class attribute wrapped)."""
    import sys as _s

    name = plan.get("method")
    if not name:
        return lambda: None
    import nuspacesim  # noqa: F401
    from nuspacesim.simulation.eas_optical.eas import EAS
    from nuspacesim.simulation.eas_radio.radio import EASRadio
    from nuspacesim.simulation.geometry.region_geometry import RegionGeom, RegionGeomToO
    from nuspacesim.simulation.spectra.spectra import Spectra
    from nuspacesim.simulation.taus.taus import Taus

    cm = _s.modules["nuspacesim.compute"]
    targets = {
        "positions": [(RegionGeom, "find_lat_long_along_traj"), (RegionGeomToO, "find_lat_long_along_traj")],
        "spectra": [(Spectra, "__call__")],
        "taus": [(Taus, "__call__")],
        "altdec": [(EAS, "altDec")],
        "eas": [(EAS, "__call__")],
        "radio": [(EASRadio, "__call__")],
        "mcintegral-optical": [(RegionGeom, "mcintegral"), (RegionGeomToO, "mcintegral")],
        "mcintegral-radio": [(RegionGeom, "mcintegral"), (RegionGeomToO, "mcintegral")],
        "snr": [(cm, "calculate_snr")],
    }[name]
    saved = []
    state = {"n": 0}
    for obj, attr in targets:
        orig = obj.__dict__[attr] if isinstance(obj, type) else getattr(obj, attr)

        def boom(*a, _orig=orig, **k):
            if name == "mcintegral-radio" and k.get("method") != "Radio":
                return _orig(*a, **k)
            if name == "mcintegral-optical" and k.get("method") != "Optical":
                return _orig(*a, **k)
            raise InjectedFault(f"injected failure in stage {name}")

        setattr(obj, attr, boom)
        saved.append((obj, attr, orig))

    def undo():
        for obj, attr, orig in saved:
            setattr(obj, attr, orig)

    return undo


def main():
    spec = json.loads(sys.argv[1])
    from . import inject  # noqa: F401  (source-built stepping)
    import dask
    import numpy as np
    from astropy.table import Table

    cm = sys.modules.get("nuspacesim.compute") or __import__("nuspacesim.compute") and sys.modules["nuspacesim.compute"]
    cfg = build_config(spec["config"])
    out = spec["outfile"]
    log = []
    orig = Table.__dict__["write"]
    Table.write = WriteProbe(orig, out, spec.get("snapdir"), spec.get("plan", {}), log)
    undo = method_fault(spec.get("plan", {}))
    res = {"raised": None}
    try:
        with dask.config.set(scheduler="synchronous"):
            np.random.seed(spec["seed"])
            import contextlib
            import io

            from .fullrun import frozen_time

            with contextlib.redirect_stdout(io.StringIO()), frozen_time():
                kw_ = {}
                if spec["config"].get("plots"):
                    # every registered diagnostic plot requested (what `run -w --plotall` does)
                    from nuspacesim.utils.plot_function_registry import registry

                    kw_["to_plot"] = sorted(registry)
                _FINAL["sim"] = cm.compute(cfg, verbose=False, output_file=out, write_stages=spec.get("write_stages", True), **kw_)
    except BaseException as e:  # noqa: BLE001
        res["raised"] = f"{type(e).__name__}: {e}"[:300]
    finally:
        undo()
        Table.write = orig
    res["writes"] = log
    try:
        res["final_colnames"] = list(_FINAL["sim"].colnames)
        res["final_meta_keys"] = list(_FINAL["sim"].meta.keys())
        res["final_meta_nonfinite"] = _nonfinite(_FINAL["sim"].meta)
    except Exception:
        pass
    if os.environ.get("NSSMON_REACH_FILE"):
        reach.dump(os.environ["NSSMON_REACH_FILE"])
    print("C17CHILD " + json.dumps(res))


if __name__ == "__main__":
    main()
