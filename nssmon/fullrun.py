"""Monitored executions of the real ``nuspacesim.compute(config)``.

Nothing in the repository is edited: wrappers are installed on classes / module
attributes for the duration of one run and removed afterwards. The event log records
what actually flowed between the stages.
"""
import contextlib
import datetime as _dt
import io
import sys

import numpy as np


class Log:
    def __init__(self):
        self.mcintegral = []  # dict(geom, args, kwargs, result)
        self.snr = []  # dict(args, result)
        self.stage_calls = []  # (name, n_events)
        self.geom = None
        self.writes = []  # filled by the write probe
        self.exception = None


class _FrozenDateTimeModule:
    """Stand-in for the ``datetime`` module inside results_table: now() is fixed."""

    class datetime(_dt.datetime):
        @classmethod
        def now(cls, tz=None):
            return cls(2030, 1, 2, 3, 4, 5)

    date = _dt.date
    timedelta = _dt.timedelta


@contextlib.contextmanager
def frozen_time():
    from nuspacesim import results_table

    old = results_table.datetime
    results_table.datetime = _FrozenDateTimeModule
    try:
        yield
    finally:
        results_table.datetime = old


@contextlib.contextmanager
def probes(log, stages=True):
    """Record mcintegral calls (both geometry classes), calculate_snr and stage entries."""
    from nuspacesim.simulation.geometry import region_geometry as RG

    cm = sys.modules["nuspacesim.compute"]
    saved = []

    def wrap_method(cls, name, rec):
        orig = cls.__dict__[name]

        def w(self, *a, **k):
            r = orig(self, *a, **k)
            rec(self, a, k, r)
            return r

        w.__wrapped__ = orig
        setattr(cls, name, w)
        saved.append((cls, name, orig))

    def rec_mc(self, a, k, r):
        kk = {x: (np.array(v, copy=True) if isinstance(v, np.ndarray) else v) for x, v in k.items() if x != "store"}
        log.mcintegral.append({"geom": self, "args": [np.array(x, copy=True) if isinstance(x, np.ndarray) else x for x in a], "kwargs": kk, "result": r})
        log.geom = self

    wrap_method(RG.RegionGeom, "mcintegral", rec_mc)
    wrap_method(RG.RegionGeomToO, "mcintegral", rec_mc)
    o_snr = cm.calculate_snr

    def snr(*a, **k):
        r = o_snr(*a, **k)
        log.snr.append({"args": [np.array(x, copy=True) if isinstance(x, np.ndarray) else x for x in a], "result": np.array(r, copy=True)})
        return r

    cm.calculate_snr = snr
    try:
        yield log
    finally:
        cm.calculate_snr = o_snr
        for cls, name, orig in reversed(saved):
            setattr(cls, name, orig)


def compute(cfg, seed=0, scheduler="synchronous", num_workers=None, pool=None, output_file=None, write_stages=False, with_probes=True, freeze=True, quiet=True, to_plot=None, verbose=False):
    """Run the real compute(); returns (table or None, Log). Exceptions are stored in log.exception."""
    import dask
    import nuspacesim

    cm = sys.modules["nuspacesim.compute"]
    log = Log()
    dkw = {"scheduler": scheduler}
    if num_workers:
        dkw["num_workers"] = num_workers
    if pool is not None:
        dkw["pool"] = pool
    stack = contextlib.ExitStack()
    with stack:
        stack.enter_context(dask.config.set(**dkw))
        if freeze:
            stack.enter_context(frozen_time())
        if with_probes:
            stack.enter_context(probes(log))
        if quiet:
            stack.enter_context(contextlib.redirect_stdout(io.StringIO()))
        if seed is not None:
            np.random.seed(int(seed))
        try:
            kw_ = {}
            if to_plot is not None:
                kw_["to_plot"] = list(to_plot)
            sim = cm.compute(cfg, verbose=verbose, output_file=output_file, write_stages=write_stages, **kw_)
            if to_plot is not None:
                import matplotlib.pyplot as plt

                plt.close("all")
        except BaseException as e:  # noqa: BLE001 - recorded for the caller to judge
            if isinstance(e, (KeyboardInterrupt, SystemExit)):
                raise
            log.exception = e
            sim = None
    return sim, log


def table_bytes(sim):
    """Canonical byte image of a results table: columns and header values."""
    from astropy.time import Time

    cols = {}
    for name in sim.colnames:
        c = sim[name]
        if isinstance(c, Time):
            cols[name] = np.asarray(c.jd1).tobytes() + np.asarray(c.jd2).tobytes()
        else:
            a = np.asarray(c)
            cols[name] = a.astype(a.dtype.newbyteorder("=")).tobytes() + str(a.shape).encode()
    meta = {k: repr(v) for k, v in sim.meta.items()}
    return cols, meta
