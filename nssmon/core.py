"""Run context, verdict discipline, evidence and known-finding handling.

Every check module exposes ``run(ctx)``; it reports through the ``Ctx`` object:

* ``ctx.count(monitor, n)``            – a monitor evaluated n cases
* ``ctx.violation(key, what, witness)`` – an oracle was contradicted
* ``ctx.observe(name, value)``         – something worth putting in the evidence
* ``ctx.distinct.add_rows(array)``     – content hashes for distinct_nontrivial
* ``ctx.require(monitor, n)``          – deciding monitor: fewer than n evaluations
                                          makes the run INCONCLUSIVE

Verdicts are three-valued (exit 0 held / 1 violated / 2 inconclusive).
"""
from __future__ import annotations

import hashlib
import json
import os
import sys
import time
import traceback
from collections import Counter, OrderedDict

import numpy as np

from . import reach

ROOT = os.environ.get("NSSMON_ROOT") or os.path.dirname(os.path.dirname(os.path.abspath(__file__)))
REPO = os.environ.get("NSS_REPO", "/repo")
BUILD = os.path.join(ROOT, ".build", REPO.replace("/", "_"))
WORK = os.path.join(ROOT, ".work")


def jsonable(x, depth=0):
    """Best-effort conversion of witnesses / samples to JSON."""
    if depth > 6:
        return repr(x)
    if isinstance(x, (str, bool, type(None))):
        return x
    if isinstance(x, (int, np.integer)):
        return int(x)
    if isinstance(x, (float, np.floating)):
        v = float(x)
        if v != v or v in (float("inf"), float("-inf")):
            return repr(v)
        return v
    if isinstance(x, np.ndarray):
        if x.size > 64:
            return {"shape": list(x.shape), "dtype": str(x.dtype), "head": jsonable(x.ravel()[:16].tolist(), depth + 1)}
        return jsonable(x.tolist(), depth + 1)
    if isinstance(x, dict):
        return {str(k): jsonable(v, depth + 1) for k, v in x.items()}
    if isinstance(x, (list, tuple, set, frozenset)):
        return [jsonable(v, depth + 1) for v in x]
    return repr(x)


def hexf(x):
    """Exact text of a float (for replayable witnesses)."""
    return float(x).hex()


class DistinctCounter:
    """Counts distinct cases by 64-bit content hash (vectorised for event rows)."""

    def __init__(self):
        self._chunks = []
        self._set = set()

    def add_rows(self, *cols, nontrivial=None):
        """Each row of the column stack is one case. `nontrivial` is an optional mask."""
        cols = [np.ascontiguousarray(np.broadcast_to(np.asarray(c, dtype=np.float64), np.shape(cols[0]))).ravel() for c in cols]
        if not cols or cols[0].size == 0:
            return
        h = np.full(cols[0].shape, 0x9E3779B97F4A7C15, dtype=np.uint64)
        with np.errstate(over="ignore"):
            for c in cols:
                v = c.view(np.uint64)
                h = (h ^ v) * np.uint64(0x100000001B3)
                h ^= h >> np.uint64(29)
        if nontrivial is not None:
            h = h[np.asarray(nontrivial).ravel()]
        self._chunks.append(h)
        if sum(c.size for c in self._chunks) > 4_000_000:
            self._compact()

    def add(self, obj):
        self._set.add(hashlib.blake2b(repr(obj).encode(), digest_size=8).digest())

    def _compact(self):
        if self._chunks:
            # sort + neighbour comparison, not np.unique: NumPy >= 2.3 routes np.unique of integer arrays
            # through a hash table whose hash of these (already hashed) 64-bit keys degenerates - 3e7 keys
            # of C02's thorough tier kept one core busy for an hour
            a = np.concatenate(self._chunks)
            a.sort(kind="stable")
            keep = np.ones(a.size, dtype=bool)
            keep[1:] = a[1:] != a[:-1]
            self._chunks = [a[keep]]

    def merge(self, other: "DistinctCounter"):
        self._chunks.extend(other._chunks)
        self._set |= other._set

    def export(self):
        self._compact()
        return (self._chunks[0] if self._chunks else np.zeros(0, np.uint64)), self._set

    def count(self):
        self._compact()
        return (int(self._chunks[0].size) if self._chunks else 0) + len(self._set)


class Inconclusive(Exception):
    pass


class Ctx:
    def __init__(self, pid, tier, seed, level="exploration", only=None, replaying=None):
        self.pid = pid
        self.tier = tier
        self.seed = int(seed)
        self.level = level
        self.only = only  # restrict to one monitor family (used by --replay)
        self.replaying = replaying
        self.t0 = time.time()
        self.mon = Counter()
        self.required = {}
        self.viol = []
        self.obs = OrderedDict()
        self.samples = []
        self.distinct = DistinctCounter()
        self.inconclusive = []
        self.exhaustive_subspaces = []
        self.worst = {}  # name -> (value, tolerance)
        self.rng = np.random.default_rng(self.seed)

    # ---- helpers for workloads -------------------------------------------------
    def thorough(self):
        return self.tier == "thorough"

    def pick(self, quick, thorough):
        return thorough if self.tier == "thorough" else quick

    def subrng(self, *tag):
        h = hashlib.blake2b(repr((self.seed,) + tag).encode(), digest_size=8).digest()
        return np.random.default_rng(int.from_bytes(h, "little"))

    def want(self, monitor):
        return self.only is None or monitor.startswith(self.only) or self.only.startswith(monitor)

    # ---- reporting ---------------------------------------------------------------
    def count(self, monitor, n=1):
        self.mon[monitor] += int(n)

    def require(self, monitor, n=1):
        self.required[monitor] = max(int(n), self.required.get(monitor, 0))

    def observe(self, name, value):
        self.obs[name] = jsonable(value)

    def track_worst(self, name, value, tol):
        value = float(value)
        if value != value:
            return
        cur = self.worst.get(name)
        if cur is None or value > cur[0]:
            self.worst[name] = (value, float(tol))

    def sample(self, s, cap=8):
        if len(self.samples) < cap:
            self.samples.append(jsonable(s))

    def violation(self, key, what, witness=None, monitor=None):
        """key: mechanism-level classification used against known_findings.json."""
        self.viol.append({"key": key, "what": what, "monitor": monitor or key.split(":")[0], "witness": jsonable(witness or {})})
        # a shard that has already collected many violations stops early: the verdict is decided, and a
        # change that also makes the code much slower would otherwise run into the watchdog
        if getattr(self, "in_shard", False) and len(self.viol) >= VIOLATION_CAP_PER_SHARD and not getattr(self, "_stopping", False):
            self._stopping = True
            raise EnoughViolations()

    def exception(self, key, what, exc, witness=None, monitor=None):
        w = dict(witness or {})
        w["exception"] = repr(exc)
        w["stack"] = traceback.format_exception(type(exc), exc, exc.__traceback__)[-6:]
        self.violation(key, f"{what}: {type(exc).__name__}: {exc}", w, monitor)

    def inconclusive_because(self, reason):
        self.inconclusive.append(reason)

    # ---- merging results from worker processes -----------------------------------
    def export_partial(self):
        _drain_config_events(self)
        return {
            "mon": dict(self.mon),
            "viol": self.viol,
            "obs": dict(self.obs),
            "samples": self.samples,
            "distinct": self.distinct.export(),
            "inconclusive": self.inconclusive,
            "worst": self.worst,
            "reach": reach.export(),
        }

    def merge_partial(self, p):
        self.mon.update(p["mon"])
        self.viol.extend(p["viol"])
        for k, v in p["obs"].items():
            if k in self.obs and isinstance(self.obs[k], (int, float)) and isinstance(v, (int, float)) and not isinstance(v, bool):
                self.obs[k] = self.obs[k] + v
            elif k in self.obs and isinstance(self.obs[k], list) and isinstance(v, list):
                # keys starting with "_" are work lists (popped by the check before finishing)
                self.obs[k] = (self.obs[k] + v) if k.startswith("_") else (self.obs[k] + v)[:64]
            elif k in self.obs and isinstance(self.obs[k], dict) and isinstance(v, dict):
                self.obs[k].update(v)
            else:
                self.obs[k] = v
        for s in p["samples"]:
            self.sample(s)
        arr, st = p["distinct"]
        d = DistinctCounter()
        d._chunks = [arr]
        d._set = st
        self.distinct.merge(d)
        self.inconclusive.extend(p["inconclusive"])
        for k, (v, t) in p["worst"].items():
            self.track_worst(k, v, t)
        reach.merge(p.get("reach", ()))

    # ---- finish --------------------------------------------------------------------
    def finish(self, rule, assumptions, extra_cov=None, exhaustive=False):
        _drain_config_events(self)
        known = load_known()
        open_keys = {(k["property"], k["key"]): k for k in known.get("open", [])}
        for m, n in self.required.items():
            if self.only is not None and not self.want(m):
                continue
            if self.mon.get(m, 0) < n:
                self.inconclusive.append(f"monitor {m} evaluated {self.mon.get(m, 0)} < {n} cases")
        real, knownhits = [], OrderedDict()
        for v in self.viol:
            if (self.pid, v["key"]) in open_keys:
                knownhits.setdefault(v["key"], []).append(v)
            else:
                real.append(v)
        # distinct witness classes
        classes = OrderedDict()
        for v in real:
            classes.setdefault(v["key"], []).append(v)
        lines = []
        rc = 0
        for key, vs in knownhits.items():
            lines.append(f"KNOWN-FINDING: property={self.pid} {key}: {open_keys[(self.pid, key)].get('what', vs[0]['what'])} (observed {len(vs)}x this run)")
        if self.replaying is None:
            for key, vs in list(classes.items())[:5]:
                path = write_replay(self, key, vs[0], len(vs))
                lines.append(f"VIOLATION property={self.pid} replay={path}")
                lines.append(f"  {key}: {vs[0]['what']}  ({len(vs)} witness(es))")
        else:
            for key, vs in list(classes.items())[:5]:
                lines.append(f"VIOLATION property={self.pid} replay={self.replaying}")
                lines.append(f"  {key}: {vs[0]['what']}  ({len(vs)} witness(es))")
        if classes:
            rc = 1
        elif self.inconclusive:
            rc = 2
            for r in self.inconclusive[:5]:
                lines.append(f"INCONCLUSIVE property={self.pid} reason={r}")
        evaluations = int(sum(self.mon.values()))
        nd = self.distinct.count()
        cov = {
            "evaluations": evaluations,
            "distinct_nontrivial": int(nd),
            "rule": rule,
            "samples": self.samples[:8] if self.samples else [],
            "monitors": {k: int(v) for k, v in sorted(self.mon.items())},
            "worst_residual_vs_tolerance": {k: {"worst": jsonable(v), "tolerance": jsonable(t)} for k, (v, t) in sorted(self.worst.items())},
            "observations": self.obs,
            "known_findings_observed": {k: len(v) for k, v in knownhits.items()},
            "violation_classes": {k: len(v) for k, v in classes.items()},
            "inconclusive_reasons": self.inconclusive[:10],
            "verdict": {0: "held-on-observed", 1: "violated", 2: "inconclusive"}[rc],
        }
        if self.exhaustive_subspaces:
            cov["exhaustive_subspaces"] = self.exhaustive_subspaces
        if exhaustive:
            cov["exhaustive"] = True
        if extra_cov:
            cov.update(jsonable(extra_cov))
        if reach.start():
            cov["reach"] = reach.report(anchor_files(self.pid))
            try:  # full hit set for tools/reach_gaps.py (git-ignored work file, not evidence)
                os.makedirs(os.path.join(WORK, "reach"), exist_ok=True)
                with open(os.path.join(WORK, "reach", f"{self.pid}.{self.tier}.json"), "w") as f:
                    json.dump(reach.export(), f)
            except Exception:
                pass
            if cov["reach"]["anchored_function_body_lines"] > 0 and cov["reach"]["anchored_lines_executed"] == 0 and rc == 0 and self.only is None:
                rc = 2
                lines.append(f"INCONCLUSIVE property={self.pid} reason=reach monitor: no line of the anchored source files was executed in-process")
                cov["verdict"] = "inconclusive"
        if rc == 0 and (evaluations < 1 or nd < 2 or not cov["samples"]):
            rc = 2
            lines.append(f"INCONCLUSIVE property={self.pid} reason=run observed too little (evaluations={evaluations}, distinct={nd}, samples={len(cov['samples'])})")
            cov["verdict"] = "inconclusive"
        ev = {
            "property_id": self.pid,
            "tier": self.tier,
            "seed": self.seed,
            "level": self.level,
            "coverage": cov,
            "assumptions": list(assumptions),
            "wall_s": round(time.time() - self.t0, 2),
            "violations": len(real),
        }
        if self.replaying is None and not os.environ.get("NSSMON_NOEVIDENCE"):
            os.makedirs(os.path.join(ROOT, "evidence"), exist_ok=True)
            p = os.path.join(ROOT, "evidence", f"{self.pid}.json")
            with open(p + ".tmp", "w") as f:
                json.dump(ev, f, indent=1, sort_keys=False, allow_nan=False)
            os.replace(p + ".tmp", p)
        for ln in lines:
            print(ln)
        print(
            f"[{self.pid}] tier={self.tier} seed={self.seed} verdict={cov['verdict']} evaluations={evaluations} "
            f"distinct={nd} monitors={len(self.mon)} wall={ev['wall_s']}s"
        )
        sys.stdout.flush()
        return rc


def anchor_files(pid):
    try:
        with open(os.path.join(ROOT, "properties.jsonl")) as f:
            for ln in f:
                p = json.loads(ln)
                if p["id"] == pid:
                    return list(p["anchors"]["files"])
    except Exception:
        pass
    return []


def load_known():
    p = os.path.join(ROOT, "known_findings.json")
    try:
        with open(p) as f:
            return json.load(f)
    except FileNotFoundError:
        return {"open": [], "fixed": []}


def write_replay(ctx, key, v, n):
    d = os.path.join(ROOT, "replay", ctx.pid)
    os.makedirs(d, exist_ok=True)
    body = {
        "property": ctx.pid,
        "tier": ctx.tier,
        "seed": ctx.seed,
        "key": key,
        "monitor": v.get("monitor"),
        "what": v["what"],
        "count_in_run": n,
        "witness": v["witness"],
        "replay": f"./check {ctx.pid} --replay <this file>",
    }
    txt = json.dumps(body, indent=1, sort_keys=True)
    digest = hashlib.sha256((key + json.dumps(v["witness"], sort_keys=True)).encode()).hexdigest()[:16]
    p = os.path.join(d, f"{digest}.json")
    with open(p, "w") as f:
        f.write(txt)
    return p


# ---- parallel sharding ---------------------------------------------------------------

VIOLATION_CAP_PER_SHARD = 25


class EnoughViolations(BaseException):
    """Raised (past `except Exception` handlers) to end a shard whose verdict is already decided."""


def _shard_entry(args):
    modname, fname, pid, tier, seed, level, only, shard, payload = args
    import importlib
    import faulthandler

    faulthandler.enable()
    mod = importlib.import_module(modname)
    ctx = Ctx(pid, tier, seed, level, only)
    ctx.in_shard = True
    try:
        getattr(mod, fname)(ctx, shard, payload)
    except EnoughViolations:
        ctx.obs["shards_stopped_early_after_many_violations"] = 1
    except Inconclusive as e:
        ctx.inconclusive_because(str(e))
    except Exception as e:  # harness error inside a shard is not a verdict about the code
        ctx.inconclusive_because(f"harness error in shard {shard}: {type(e).__name__}: {e} :: {traceback.format_exc()[-600:]}")
    return ctx.export_partial()


def run_shards(ctx, modname, fname, payloads, workers=None, timeout=3000):
    """Run fname(ctx_i, shard_index, payload) in worker processes; merge into ctx."""
    import concurrent.futures as cf
    import multiprocessing as mp

    workers = workers or min(16, max(1, len(payloads)))
    jobs = [(modname, fname, ctx.pid, ctx.tier, ctx.seed, ctx.level, ctx.only, i, p) for i, p in enumerate(payloads)]
    if workers == 1 or len(jobs) == 1:
        for j in jobs:
            ctx.merge_partial(_shard_entry(j))
        return
    mpctx = mp.get_context("fork")
    with cf.ProcessPoolExecutor(max_workers=workers, mp_context=mpctx) as ex:
        futs = [ex.submit(_shard_entry, j) for j in jobs]
        try:
            for f in cf.as_completed(futs, timeout=timeout):
                try:
                    ctx.merge_partial(f.result())
                except Exception as e:
                    ctx.inconclusive_because(f"worker died: {type(e).__name__}: {e}")
        except cf.TimeoutError:
            ctx.inconclusive_because(f"watchdog: shards did not finish in {timeout}s")
            for f in futs:
                f.cancel()
            # do not wait for the shards that are still running
            for pr in list(getattr(ex, "_processes", {}).values()):
                try:
                    pr.terminate()
                except Exception:
                    pass


def _raw_model(m):
    from pydantic import BaseModel

    return {k: (_raw_model(getattr(m, k)) if isinstance(getattr(m, k), BaseModel) else getattr(m, k)) for k in type(m).model_fields}


def _leaf_diffs(a, b, pre=""):
    out = []
    for k in a:
        if isinstance(a[k], dict) and isinstance(b.get(k), dict):
            out += _leaf_diffs(a[k], b[k], f"{pre}{k}.")
        else:
            va, vb = a[k], b.get(k, "<missing>")
            same = (va == vb and type(va) is type(vb)) or (isinstance(va, float) and isinstance(vb, float) and va != va and vb != vb) or (isinstance(va, (int, float)) and isinstance(vb, (int, float)) and not isinstance(va, bool) and not isinstance(vb, bool) and va == vb)
            if not same:
                out.append((pre + k, va, vb))
    return out


_CONFIG_EVENTS = {"validated": 0, "rejected": [], "altered": []}


def validated(cfg, where=""):
    """The configuration a check built by attribute assignment, passed once through the validating
    constructor (what a TOML file, the command line or config_from_fits go through). Every value is
    a bare number / string in the canonical unit, so the validated object must hold exactly the
    values that were assigned: a validator that silently alters a setting makes every downstream
    result describe another configuration than the one asked for. Alterations are collected here
    and turned into violations by the Ctx of the running check (export_partial / finish)."""
    d = _raw_model(cfg)
    try:
        c2 = type(cfg)(**d)
    except Exception as e:  # the checks' own configurations are valid; a rejection is recorded
        if len(_CONFIG_EVENTS["rejected"]) < 5:
            _CONFIG_EVENTS["rejected"].append(f"{where}: {type(e).__name__}: {str(e)[:200]}")
        return cfg
    _CONFIG_EVENTS["validated"] += 1
    diffs = _leaf_diffs(d, _raw_model(c2))
    if diffs and len(_CONFIG_EVENTS["altered"]) < 20:
        k, va, vb = diffs[0]
        _CONFIG_EVENTS["altered"].append((where, k, repr(va), repr(vb), len(diffs)))
    return c2


def _drain_config_events(ctx):
    ev = _CONFIG_EVENTS
    if ev["validated"]:
        ctx.count("config-validated", ev["validated"])
        ev["validated"] = 0
    for r in ev["rejected"]:
        ctx.obs.setdefault("configurations_rejected_by_validation", [])
        if r not in ctx.obs["configurations_rejected_by_validation"] and len(ctx.obs["configurations_rejected_by_validation"]) < 5:
            ctx.obs["configurations_rejected_by_validation"].append(r)
    ev["rejected"] = []
    for where, k, va, vb, n in ev["altered"]:
        ctx.violation("config-altered", f"{where + ': ' if where else ''}building the configuration through its validators changes {k}: {va} -> {vb} ({n} field(s)); every result then describes another configuration than the one asked for", {"field": k, "asked": va, "stored": vb})
    ev["altered"] = []
