import importlib
import json
import os
import sys
import traceback
import warnings

warnings.filterwarnings("ignore")

from . import reach  # noqa: E402

reach.start()

# must happen at import time of the main module: spawned dask workers re-import it
from . import inject  # noqa: E402,F401


def main(argv):
    if not argv:
        print("usage: ./check <id> [quick|thorough] | ./check <id> --replay <path>")
        return 2
    pid = argv[0].upper()
    tier = os.environ.get("VERIF_TIER", "quick")
    replay = None
    only = None
    rest = argv[1:]
    i = 0
    while i < len(rest):
        a = rest[i]
        if a in ("quick", "thorough"):
            tier = a
        elif a == "--tier":
            i += 1
            tier = rest[i]
        elif a == "--replay":
            i += 1
            replay = rest[i]
        elif a == "--only":
            i += 1
            only = rest[i]
        i += 1
    seed = int(os.environ.get("VERIF_SEED", "0") or 0)
    from .core import Ctx

    if replay:
        with open(replay) as f:
            w = json.load(f)
        tier, seed, only = w.get("tier", tier), int(w.get("seed", seed)), w.get("monitor")
        pid = w.get("property", pid)
    try:
        mod = importlib.import_module(f"nssmon.checks.{pid.lower()}")
    except ModuleNotFoundError as e:
        print(f"INCONCLUSIVE property={pid} reason=no check module ({e})")
        return 2
    ctx = Ctx(pid, tier, seed, getattr(mod, "LEVEL", "exploration"), only=only, replaying=replay)
    try:
        return mod.run(ctx)
    except Exception as e:  # a harness failure is never a verdict about the repository
        traceback.print_exc()
        print(f"INCONCLUSIVE property={pid} reason=harness error {type(e).__name__}: {e}")
        return 2


if __name__ == "__main__":
    sys.exit(main(sys.argv[1:]))
