"""Reach monitor (DESIGN 3.6): which lines of the repository's own functions did this run execute?

sys.monitoring, tool COVERAGE_ID.  A global PY_START callback looks at every code object once
(DISABLE afterwards); for code objects that live under <repo>/src/nuspacesim it switches LINE events
on for that code object only, and the LINE callback records (file, line) once per location (DISABLE).
Cost: one callback per code object and per repository line, whatever the length of the run.

Worker processes are forked, so they inherit the hook and the hits made so far; each shard exports its
set and the parent forms the union.  Subprocesses that are started with a fresh interpreter (the C17
crash children, CLI runs, dask's spawn-based process pools) are *not* seen unless they call start()
and dump() themselves (c17_child does): the table is a lower bound.

Nothing here is a verdict about the repository.  The table goes into the evidence
(coverage.reach) so that a reader sees which anchored functions the oracles' workloads entered, which
lines of them never ran, and therefore what "held on what was observed" does not cover; a run in which
not a single line of the property's anchored source files was executed is INCONCLUSIVE.
"""
import json
import os
import sys

REPO = os.environ.get("NSS_REPO", "/repo")
SRC = os.path.join(REPO, "src", "nuspacesim") + os.sep

_hits = set()
_started = False
_TOOL = None


def _on_line(code, line):
    _hits.add((code.co_filename, line))
    return sys.monitoring.DISABLE


def _on_start(code, offset):
    fn = code.co_filename
    if fn.startswith(SRC):
        m = sys.monitoring
        try:
            m.set_local_events(_TOOL, code, m.events.LINE)
        except Exception:
            pass
        _hits.add((fn, -code.co_firstlineno))  # "entered" marker, independent of LINE semantics
    return sys.monitoring.DISABLE


def start():
    """Idempotent; silently does nothing where sys.monitoring is missing or the tool id is taken."""
    global _started, _TOOL
    if _started or os.environ.get("NSSMON_NOREACH"):
        return _started
    m = getattr(sys, "monitoring", None)
    if m is None:
        return False
    try:
        _TOOL = m.COVERAGE_ID
        m.use_tool_id(_TOOL, "nssmon-reach")
        m.register_callback(_TOOL, m.events.PY_START, _on_start)
        m.register_callback(_TOOL, m.events.LINE, _on_line)
        m.set_events(_TOOL, m.events.PY_START)
        _started = True
    except Exception:
        _started = False
    return _started


def export():
    return sorted(_hits)


def merge(rows):
    for r in rows:
        _hits.add((r[0], r[1]))


def dump(path):
    """Append this process's hits to a JSON-lines file (used by child processes before they exit)."""
    try:
        with open(path, "a") as f:
            f.write(json.dumps(export()) + "\n")
    except Exception:
        pass


def load(path):
    try:
        with open(path) as f:
            for ln in f:
                if ln.strip():
                    merge(json.loads(ln))
    except FileNotFoundError:
        pass


def _functions(path):
    """{qualname@firstline: (firstline, set(executable body lines))} for every function-like code object."""
    with open(path, "rb") as f:
        src = f.read()
    top = compile(src, path, "exec", dont_inherit=True)
    out = {}

    def walk(co):
        for c in co.co_consts:
            if hasattr(c, "co_code"):
                if c.co_flags & 0x1:  # CO_OPTIMIZED: a function / lambda / generator, not a class body
                    lines = {l for (_, _, l) in c.co_lines() if l is not None}
                    body = lines - {c.co_firstlineno} or lines
                    out[(c.co_qualname, c.co_firstlineno)] = body
                walk(c)

    walk(top)
    return out, src.decode("utf8", "replace").splitlines()


def report(anchor_files, max_missed=40):
    """Per anchored .py file: executable / executed body lines of its functions, functions never entered,
    and the source text of lines that never ran in functions that were entered."""
    rep = {}
    tot_exec = tot_hit = 0
    for rel in anchor_files:
        if not rel.endswith(".py"):
            continue
        path = os.path.join(REPO, rel)
        if not os.path.exists(path):
            rep[rel] = {"note": "file not present in the tree under test"}
            continue
        try:
            funcs, text = _functions(path)
        except SyntaxError as e:
            rep[rel] = {"note": f"does not compile: {e}"}
            continue
        hit_lines = {l for (f, l) in _hits if f == path and l > 0}
        entered_marks = {-l for (f, l) in _hits if f == path and l < 0}
        n_exec = n_hit = 0
        never, partial, missed = [], {}, []
        for (qn, first), body in sorted(funcs.items(), key=lambda kv: kv[0][1]):
            h = body & hit_lines
            n_exec += len(body)
            n_hit += len(h)
            if first not in entered_marks and not h:
                never.append(qn)
            elif len(h) < len(body):
                partial[qn] = f"{len(h)}/{len(body)}"
                for l in sorted(body - h):
                    if len(missed) < max_missed:
                        missed.append(f"{qn}:{l}: {text[l - 1].strip()[:90]}")
        rep[rel] = {
            "function_body_lines": n_exec,
            "executed": n_hit,
            "functions": len(funcs),
            "functions_entered": len(funcs) - len(never),
            "never_entered": never[:60],
            "partially_executed": partial,
            "lines_never_executed_in_entered_functions": missed,
        }
        tot_exec += n_exec
        tot_hit += n_hit
    other = {}
    for f, l in _hits:
        if l > 0 and f.startswith(SRC):
            r = os.path.relpath(f, REPO)
            if r not in rep:
                other[r] = other.get(r, 0) + 1
    return {
        "active": _started,
        "anchored": rep,
        "anchored_lines_executed": tot_hit,
        "anchored_function_body_lines": tot_exec,
        "other_repository_files_lines_executed": dict(sorted(other.items())),
        "note": "in-process lines only (forked shards included); fresh-interpreter subprocesses are not seen unless they report themselves",
    }
