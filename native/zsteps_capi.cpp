// C ABI around the working tree's zsteps.cpp (compiled through the pybind11 shim).
// ZSTEPS_SOURCE is defined on the command line as the path of the current source.
#include ZSTEPS_SOURCE
#include <cstdint>

extern "C" {
// returns number of steps; copies at most cap entries into zsave/delzs
long zsteps_f64(double z, double s, double RadE, double zMaxZ, double zmax, double dL,
                double pi, double *zsave, double *delzs, long cap) {
  auto r = py_zsteps<double>(z, s, RadE, zMaxZ, zmax, dL, pi);
  long n = (long)r.first.size();
  long m = n < cap ? n : cap;
  std::memcpy(zsave, r.first.data(), m * sizeof(double));
  std::memcpy(delzs, r.second.data(), m * sizeof(double));
  return n;
}
long zsteps_f32(float z, float s, float RadE, float zMaxZ, float zmax, float dL,
                float pi, float *zsave, float *delzs, long cap) {
  auto r = py_zsteps<float>(z, s, RadE, zMaxZ, zmax, dL, pi);
  long n = (long)r.first.size();
  long m = n < cap ? n : cap;
  std::memcpy(zsave, r.first.data(), m * sizeof(float));
  std::memcpy(delzs, r.second.data(), m * sizeof(float));
  return n;
}
}
