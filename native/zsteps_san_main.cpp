// Standalone sanitizer driver: reads tuples "z s RadE zMaxZ zmax dL pi" (hex floats)
// from stdin, runs both template instantiations, prints step counts and an FNV-1a
// hash of the double outputs (compared with the unsanitized build by the harness).
#include ZSTEPS_SOURCE
#include <cstdint>
#include <cstdio>
#include <cstdlib>

static uint64_t fnv(uint64_t h, const void *p, size_t n) {
  const unsigned char *c = (const unsigned char *)p;
  for (size_t i = 0; i < n; i++) { h ^= c[i]; h *= 1099511628211ULL; }
  return h;
}
int main() {
  char buf[1024];
  uint64_t h64 = 1469598103934665603ULL, h32 = h64;
  long tuples = 0, steps64 = 0, steps32 = 0, maxsteps = 0;
  while (fgets(buf, sizeof buf, stdin)) {
    double a[7]; char *p = buf; int k = 0;
    for (; k < 7; k++) { char *e; a[k] = strtod(p, &e); if (e == p) break; p = e; }
    if (k < 7) continue;
    auto r = py_zsteps<double>(a[0], a[1], a[2], a[3], a[4], a[5], a[6]);
    steps64 += (long)r.first.size();
    if ((long)r.first.size() > maxsteps) maxsteps = (long)r.first.size();
    h64 = fnv(h64, r.first.data(), r.first.size() * sizeof(double));
    h64 = fnv(h64, r.second.data(), r.second.size() * sizeof(double));
    auto f = py_zsteps<float>((float)a[0], (float)a[1], (float)a[2], (float)a[3],
                              (float)a[4], (float)a[5], (float)a[6]);
    steps32 += (long)f.first.size();
    h32 = fnv(h32, f.first.data(), f.first.size() * sizeof(float));
    h32 = fnv(h32, f.second.data(), f.second.size() * sizeof(float));
    tuples++;
  }
  printf("tuples=%ld steps64=%ld steps32=%ld maxsteps=%ld h64=%016llx h32=%016llx\n", tuples,
         steps64, steps32, maxsteps, (unsigned long long)h64, (unsigned long long)h32);
  return 0;
}
