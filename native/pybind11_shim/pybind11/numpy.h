#pragma once
#include "pybind11.h"
