// Minimal stand-in for the two pybind11 headers that zsteps.cpp includes.
// pybind11 itself is not installed in this sandbox, so the production extension
// cannot be rebuilt; this shim lets clang++ compile the *unchanged, current*
// zsteps.cpp so the checks always run the working tree's stepping code.
#pragma once
#include <cstddef>
#include <cstring>
#include <memory>
#include <vector>
namespace pybind11 {
struct buffer_info { void *ptr; std::size_t size; };
template <typename T> class array_t {
  std::shared_ptr<std::vector<T>> v_;
  std::size_t n_ = 0;
public:
  array_t() : v_(std::make_shared<std::vector<T>>()) {}
  explicit array_t(std::size_t n) : v_(std::make_shared<std::vector<T>>(n)), n_(n) { if (n == 0) v_->reserve(1); /* numpy never hands out a null data pointer */ }
  buffer_info request() { return buffer_info{ (void *)v_->data(), v_->size() }; }
  std::size_t size() const { return v_->size(); }
  const T *data() const { return v_->data(); }
  T *mutable_data() { return v_->data(); }
};
struct module_ {
  struct docproxy { template <typename X> docproxy &operator=(X) { return *this; } };
  docproxy doc() { return docproxy(); }
  template <typename F, typename... A> module_ &def(const char *, F, A...) { return *this; }
};
} // namespace pybind11
#define PYBIND11_MODULE(name, var) static void nssmon_pybind_module_##name(pybind11::module_ &var)
