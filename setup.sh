#!/bin/bash
# Offline setup: third-party deps for the monitors and the native builds of the
# working tree's zsteps.cpp. Idempotent; the zsteps objects are always rebuilt
# (1-2 s) so an edited zsteps.cpp can never be missed.
set -u
V="$(cd "$(dirname "$(readlink -f "$0")")" && pwd)"
REPO="${NSS_REPO:-/repo}"
PY=/venv/bin/python
mkdir -p "$V/.deps" "$V/.build" "$V/.work" "$V/replay" "$V/evidence"
if [ ! -d "$V/.deps/icontract" ]; then
  PIP_NO_INDEX=1 /venv/bin/pip install -q --no-index --find-links /opt/veriftools/wheels \
      --target "$V/.deps" icontract >"$V/.build/pip.log" 2>&1 || { echo "SETUP-FAIL pip icontract (see .build/pip.log)"; exit 3; }
fi
SRC="$REPO/src/nuspacesim/simulation/eas_optical/src/zsteps.cpp"
B="$V/.build/$(echo "$REPO" | tr '/' '_')"
mkdir -p "$B"
CXX=clang++
FL="-std=c++17 -I$V/native/pybind11_shim -DZSTEPS_SOURCE=\"$SRC\""
( $CXX $FL -O2 -fPIC -shared "$V/native/zsteps_capi.cpp" -o "$B/libzsteps_src.so.tmp$$" && mv -f "$B/libzsteps_src.so.tmp$$" "$B/libzsteps_src.so" ) 2>"$B/build_lib.log" || { echo "SETUP-FAIL zsteps lib build (see $B/build_lib.log)"; exit 3; }
( $CXX $FL -O2 "$V/native/zsteps_san_main.cpp" -o "$B/zsteps_plain.tmp$$" && mv -f "$B/zsteps_plain.tmp$$" "$B/zsteps_plain" ) 2>"$B/build_plain.log" || { echo "SETUP-FAIL zsteps plain build"; exit 3; }
( $CXX $FL -O1 -g -fsanitize=address,undefined,float-divide-by-zero,float-cast-overflow -fno-sanitize-recover=all \
    "$V/native/zsteps_san_main.cpp" -o "$B/zsteps_san.tmp$$" && mv -f "$B/zsteps_san.tmp$$" "$B/zsteps_san" ) 2>"$B/build_san.log" || { echo "SETUP-FAIL zsteps sanitizer build"; exit 3; }
echo "setup ok: $B"
